(** Monitor soundness for C02 / C03 — the model side for handle-running and continue steps:
    the events emitted by the step, run through the abstract tracker, pass every check and lead
    to a view that again agrees with the task records. *)
From TP Require Import PInv PMon PInv_R_base PInv_R_tr PMonSound_trk PMonSound_ev PMonSound2_def
  PMonSound2_tk.

Definition QA (RI : list rimm) (TG : list nat) (V0 : aview) (G : Prop)
           (ov : option (nat * status)) (s : state) : Prop :=
  let r := avrun RI TG (evs s) V0 in
  InvA RI TG (fst (fst r)) s ov /\ snd (fst r) = true /\ (G -> snd r = true) /\
  map imm_m (mtasks s) = RI.

(** ** frames *)
Lemma QA_eq RI TG V0 G ov s s' :
  ptasks s' = ptasks s -> evs s' = evs s -> mtasks s' = mtasks s ->
  QA RI TG V0 G ov s -> QA RI TG V0 G ov s'.
Proof.
  unfold QA, InvA, st_at, get_p. intros -> -> ->. auto.
Qed.

Lemma QA_sched RI TG V0 G ov s h : QA RI TG V0 G ov s -> QA RI TG V0 G ov (sched s h).
Proof. apply QA_eq; unfold sched; destruct (is_ready s h); reflexivity. Qed.

Lemma QA_fold {A} (f : state -> A -> state) RI TG V0 G ov :
  (forall s x, QA RI TG V0 G ov s -> QA RI TG V0 G ov (f s x)) ->
  forall l s, QA RI TG V0 G ov s -> QA RI TG V0 G ov (fold_left f l s).
Proof. intros Hf. induction l as [|x l IH]; simpl; intros s H; auto. Qed.

Lemma QA_sched_cbs RI TG V0 G ov s r : QA RI TG V0 G ov s -> QA RI TG V0 G ov (sched_cbs s r).
Proof. intros H. unfold sched_cbs. apply QA_fold; auto. intros; apply QA_sched; auto. Qed.

Lemma QA_put_d RI TG V0 G ov s m x : QA RI TG V0 G ov s -> QA RI TG V0 G ov (put_d s m x).
Proof. exact (fun H => H). Qed.
Lemma QA_set_ctl RI TG V0 G ov s c : QA RI TG V0 G ov s -> QA RI TG V0 G ov (set_ctl s c).
Proof. exact (fun H => H). Qed.

Definition mok (RI : list rimm) (m : nat) (x : mtask) : Prop :=
  forall i, nth_error RI m = Some i -> imm_m x = i.

Lemma map_upd_gen {A B} (f : A -> B) l n y :
  (forall x, nth_error l n = Some x -> f y = f x) -> map f (upd l n y) = map f l.
Proof.
  revert n. induction l as [|a l IH]; intros [|n]; simpl; intros H; auto.
  - rewrite (H a); auto.
  - f_equal. apply IH; auto.
Qed.

Lemma QA_put_m RI TG V0 G ov s m x :
  QA RI TG V0 G ov s -> mok RI m x -> QA RI TG V0 G ov (put_m s m x).
Proof.
  intros (H1 & H2 & H3 & H4) Hm. split; [exact H1|]. split; [exact H2|]. split; [exact H3|].
  unfold put_m; cbn. rewrite <- H4. apply map_upd_gen. intros y Hy.
  apply Hm. rewrite <- H4. rewrite nth_error_map, Hy. reflexivity.
Qed.

Lemma mok_get RI TG V0 G ov s m x : QA RI TG V0 G ov s -> get_m s m = Some x -> mok RI m x.
Proof.
  intros (_ & _ & _ & H4) Hx i Hi. rewrite <- H4 in Hi. rewrite nth_error_map in Hi.
  unfold get_m in Hx. rewrite Hx in Hi. simpl in Hi. congruence.
Qed.

Definition other_ev2 (e : event) : bool :=
  match e with EvPull _ _ | EvDriverDone _ _ => true | _ => false end.

Lemma QA_emit_other RI TG V0 G ov s e :
  other_ev2 e = true -> QA RI TG V0 G ov s -> QA RI TG V0 G ov (emit s e).
Proof.
  intros He (H1 & H2 & H3 & H4). unfold QA. unfold emit. cbn [evs set_evs mtasks].
  rewrite avrun_snoc. destruct (avrun RI TG (evs s) V0) as [[V a] b]. cbn [fst snd] in *.
  assert (Hv : avev (length RI) V e = V) by (destruct e; simpl in *; congruence).
  assert (Hc2 : chk2 V e = true) by (destruct e; simpl in *; congruence).
  assert (Hc3 : chk3 RI TG V e = true) by (destruct e; simpl in *; congruence).
  rewrite Hv, Hc2, Hc3, !andb_true_r. auto.
Qed.

(** ** the executing task *)
Lemma st_at_put_neq s a x ov u :
  u <> a -> st_at (put_p s a x) ov u = st_at s ov u.
Proof.
  intros H. unfold st_at. rewrite get_p_put_p_neq by auto. reflexivity.
Qed.

Lemma QA_chg RI TG V0 G ov ov' s s' :
  QA RI TG V0 G ov s -> evs s' = evs s -> mtasks s' = mtasks s ->
  (forall V, InvA RI TG V s ov -> InvA RI TG V s' ov') ->
  QA RI TG V0 G ov' s'.
Proof.
  intros (H1 & H2 & H3 & H4) E1 E2 Hi. unfold QA. rewrite E1, E2.
  split; [apply Hi; exact H1|]. split; [exact H2|]. split; [exact H3|exact H4].
Qed.

Lemma QA_put_p_active RI TG V0 G a g s x :
  QA RI TG V0 G (Some (a, g)) s -> QA RI TG V0 G (Some (a, g)) (put_p s a x).
Proof.
  intros H. eapply QA_chg; [exact H|reflexivity|reflexivity|].
  intros V (N & T & L). split; [exact N|]. split.
  - intros u. specialize (T u). unfold st_at in *. destruct (Nat.eqb_spec u a) as [E|E]; [exact T|].
    rewrite get_p_put_p_neq by auto. exact T.
  - intros a' g' [= <- <-]. unfold put_p; cbn. rewrite upd_length. eapply L; eauto.
Qed.

Lemma QA_open RI TG V0 G s a x :
  QA RI TG V0 G None s -> get_p s a = Some x -> QA RI TG V0 G (Some (a, st_of x)) s.
Proof.
  intros H Hx. eapply QA_chg; [exact H|reflexivity|reflexivity|].
  intros V (N & T & L). split; [exact N|]. split.
  - intros u. specialize (T u). unfold st_at in *. destruct (Nat.eqb_spec u a) as [E|E]; [|exact T].
    subst u. rewrite Hx in T. exact T.
  - intros a' g' [= <- <-]. eapply get_p_lt; eauto.
Qed.

Lemma QA_restat RI TG V0 G s a g g' :
  QA RI TG V0 G (Some (a, g)) s ->
  (forall V, taskok RI TG V a (Some g) -> taskok RI TG V a (Some g')) ->
  QA RI TG V0 G (Some (a, g')) s.
Proof.
  intros H Hg. eapply QA_chg; [exact H|reflexivity|reflexivity|].
  intros V (N & T & L). split; [exact N|]. split.
  - intros u. specialize (T u). unfold st_at in *. destruct (Nat.eqb_spec u a) as [E|E]; [|exact T].
    subst u. apply Hg. exact T.
  - intros a' g0 [= <- <-]. eapply L; eauto.
Qed.

Definition agree (g : status) (x : ptask) : Prop :=
  s_ns g = p_nstart x /\ s_ncc g = p_nccb x /\ s_nec g = p_necb x /\ s_req g = p_req x /\
  s_el g = p_el x /\ s_w g = p_w x /\ s_ecb g = p_ecb x /\ s_ccb g = p_ccb x /\
  (is_def (p_unst x) = true -> s_def g = true).

Lemma agree_st_of x : agree (st_of x) x.
Proof. unfold agree; cbn. repeat split; auto. Qed.

Lemma QA_put_close RI TG V0 G s a g x :
  QA RI TG V0 G (Some (a, g)) s -> agree g x -> ph_of (p_pc x) = s_ph g ->
  QA RI TG V0 G None (put_p s a x).
Proof.
  intros H Ha Hp. eapply QA_chg; [exact H|reflexivity|reflexivity|].
  intros V (N & T & L). split; [exact N|]. split; [|intros a' g' E; discriminate E].
  intros u. specialize (T u). unfold st_at in *.
  destruct (Nat.eqb_spec u a) as [E|Hne].
  - subst u. rewrite get_p_put_p_eq by (eapply L; eauto). cbn [option_map].
    eapply taskok_le; [|exact T].
    destruct Ha as (A1 & A2 & A3 & A4 & A5 & A6 & A7 & A8 & A9).
    unfold le_st; cbn. repeat split; auto; discriminate.
  - rewrite get_p_put_p_neq by auto. exact T.
Qed.

(** one event of the executing task *)
Lemma QA_emit RI TG V0 G s a g g' e :
  QA RI TG V0 G (Some (a, g)) s -> ev_task e = Some a ->
  (forall V, NoDup (a_live V) -> taskok RI TG V a (Some g) ->
     taskok RI TG (avev (length RI) V e) a (Some g') /\
     NoDup (a_live (avev (length RI) V e)) /\
     chk2 V e = true /\ (G -> chk3 RI TG V e = true)) ->
  QA RI TG V0 G (Some (a, g')) (emit s e).
Proof.
  intros ((N & T & L) & H2 & H3 & H4) He Hloc. unfold QA. unfold emit. cbn [evs set_evs mtasks].
  rewrite avrun_snoc. destruct (avrun RI TG (evs s) V0) as [[V a2] b]. cbn [fst snd] in *.
  pose proof (T a) as Ta. unfold st_at in Ta. rewrite Nat.eqb_refl in Ta.
  destruct (Hloc V N Ta) as (K1 & K2 & K3 & K4).
  split; [|split; [|split]]; auto.
  - split; [exact K2|]. split.
    + intros u. unfold st_at. destruct (Nat.eqb_spec u a) as [->|Hne]; [exact K1|].
      apply taskok_vsame with (V := V).
      * apply avev_vsame. rewrite He. congruence.
      * specialize (T u). unfold st_at in T. destruct (Nat.eqb_spec u a); [contradiction|].
        exact T.
    + intros a' g0 [= <- <-]. eapply L; eauto.
  - rewrite H2, K3. reflexivity.
  - intros HG. rewrite (H3 HG), (K4 HG). reflexivity.
Qed.

Lemma tk_live_iff RI TG V a g :
  taskok RI TG V a (Some g) -> (In a (a_live V) <-> live_ph (s_ph g)).
Proof. intros H. apply H. Qed.

Lemma QA_ev_start RI TG V0 G s a g :
  QA RI TG V0 G (Some (a, g)) s -> s_ph g = PhNew -> s_ns g = 0 -> matches RI g ->
  QA RI TG V0 G (Some (a, upd_st g PhLive 1 (s_ncc g) (s_nec g) (s_cd g) (s_cn g) (s_nc g)))
     (emit s (EvStart a (s_req g) (s_el g))).
Proof.
  intros H Hph Hns Hm. eapply QA_emit; eauto. intros V N T.
  split; [apply tk_start; auto|]. split; [|split; [reflexivity|intros _; reflexivity]].
  simpl avev. rewrite (matches_ltb RI g Hm). cbn. constructor; auto.
  intros Hin. apply (tk_live_iff _ _ _ _ _ T) in Hin. unfold live_ph in Hin. rewrite Hph in Hin.
  destruct Hin; discriminate.
Qed.

Lemma QA_ev_cancelled RI TG V0 G s a g :
  QA RI TG V0 G (Some (a, g)) s -> s_ph g = PhLive ->
  QA RI TG V0 G (Some (a, upd_st g PhUC (s_ns g) (s_ncc g) (s_nec g) (s_cd g) true false))
     (emit s (EvCancelled a)).
Proof.
  intros H Hph. eapply QA_emit; eauto. intros V N T.
  split; [apply tk_cancelled; auto|]. split; [exact N|split; [reflexivity|intros _; reflexivity]].
Qed.

Lemma QA_ev_exit RI TG V0 G s a g :
  QA RI TG V0 G (Some (a, g)) s -> live_ph (s_ph g) -> s_ns g <> 0 ->
  QA RI TG V0 G (Some (a, set_ph g PhMid)) (emit s (EvExit a)).
Proof.
  intros H Hph Hns. eapply QA_emit; eauto. intros V N T.
  split; [apply tk_exit; auto|]. split; [|split; [reflexivity|intros _; reflexivity]].
  simpl. apply NoDup_removeall. exact N.
Qed.

(** conditions under which the checks of [C03_cancel_iff] pass *)
Definition ciff (g : status) : Prop :=
  (s_ns g = 0 -> s_def g = true) /\
  (s_ns g <> 0 -> s_cn g = true /\ w_cancel (s_w g) = WPropagate).

Definition kend (g : status) : Prop :=
  s_ns g = 0 \/ s_nc g = true \/ w_cancel (s_w g) = WSwallow \/ s_ccb g = CbNone \/
  s_cd g = true.

Lemma i_prop_of ri el w : i_wof ri el = w -> i_prop ri el = match w_cancel w with WPropagate => true | WSwallow => false end.
Proof. intros <-. reflexivity. Qed.

Lemma QA_ev_cbbegin_can RI TG V0 G s a g cl :
  QA RI TG V0 G (Some (a, g)) s -> s_ph g = PhMid -> s_ncc g = 0 -> s_nec g = 0 ->
  (G -> ciff g) ->
  QA RI TG V0 G (Some (a, upd_st g PhCan (s_ns g) 1 (s_nec g) (s_cd g) (s_cn g) (s_nc g)))
     (emit s (EvCbBegin KCancel a cl)).
Proof.
  intros H Hph Hcc Hec Hci. eapply QA_emit; eauto. intros V N T.
  split; [apply tk_cbbegin_can; auto|]. split; [exact N|]. split; [reflexivity|].
  intros HG. destruct (Hci HG) as [C0 C1].
  unfold taskok in T.
  destruct T as (H1 & H2 & H3 & H4 & H5 & H6 & H7 & H8 & H9 & H10 & H11 & H12 & H13 & H14).
  simpl chk3.
  rewrite (mem_false_of a (a_ccb V)) by (intros Hx; apply H9 in Hx; congruence).
  rewrite (mem_false_of a (a_ecb V)) by (intros Hx; apply H10 in Hx; congruence).
  rewrite (mem_false_of a (a_live V))
    by (intros Hx; apply H1 in Hx; unfold live_ph in Hx; rewrite Hph in Hx; destruct Hx; discriminate).
  simpl. destruct (Nat.eq_dec (s_ns g) 0) as [Hz|Hnz].
  - rewrite (H2 Hz). apply mem_true_of. apply H14. auto.
  - destruct (H3 Hnz) as [Ha (ri & R1 & R2 & R3 & R4)]. rewrite Ha, R1.
    destruct (C1 Hnz) as [Cn Cw].
    rewrite (mem_true_of a (a_cancelled V)) by auto.
    rewrite (i_prop_of ri (s_el g) (s_w g) R4), Cw. reflexivity.
Qed.

Lemma QA_ev_cbbegin_end RI TG V0 G s a g cl :
  QA RI TG V0 G (Some (a, g)) s -> s_ph g = PhMid -> s_nec g = 0 ->
  (G -> kend g) ->
  QA RI TG V0 G (Some (a, upd_st g PhEnd (s_ns g) (s_ncc g) 1 (s_cd g) (s_cn g) (s_nc g)))
     (emit s (EvCbBegin KEnd a cl)).
Proof.
  intros H Hph Hec Hk. eapply QA_emit; eauto. intros V N T.
  split; [apply tk_cbbegin_end; auto|]. split; [exact N|].
  unfold taskok in T.
  destruct T as (H1 & H2 & H3 & H4 & H5 & H6 & H7 & H8 & H9 & H10 & H11 & H12 & H13 & H14).
  assert (E1 : mem a (a_ecb V) = false)
    by (apply mem_false_of; intros Hx; apply H10 in Hx; congruence).
  split; [simpl; rewrite E1; reflexivity|].
  intros HG. simpl chk3. rewrite E1.
  rewrite (has_cb_false (a_cbs V) a KCancel) by (intros Hx; apply H7 in Hx; congruence).
  rewrite (mem_false_of a (a_live V))
    by (intros Hx; apply H1 in Hx; unfold live_ph in Hx; rewrite Hph in Hx; destruct Hx; discriminate).
  simpl. destruct (Nat.eq_dec (s_ns g) 0) as [Hz|Hnz].
  - rewrite (H2 Hz). reflexivity.
  - destruct (H3 Hnz) as [Ha (ri & R1 & R2 & R3 & R4)]. rewrite Ha, R1.
    destruct (Hk HG) as [K|[K|[K|[K|K]]]].
    + contradiction.
    + rewrite (mem_false_of a (a_cancelled V)) by auto. reflexivity.
    + rewrite (i_prop_of ri (s_el g) (s_w g) R4), K. rewrite andb_false_r. reflexivity.
    + rewrite R3, K. simpl. rewrite andb_false_r. reflexivity.
    + rewrite (mem_true_of a (a_ccd V)) by auto. apply implb_true_r.
Qed.

Lemma QA_ev_cbend RI TG V0 G s a g kd r :
  QA RI TG V0 G (Some (a, g)) s ->
  (kd = KCancel /\ s_ph g = PhCan) \/ (kd = KEnd /\ s_ph g = PhEnd) ->
  QA RI TG V0 G
     (Some (a, upd_st g PhMid (s_ns g) (s_ncc g) (s_nec g)
                      (match kd with KCancel => true | KEnd => s_cd g end) (s_cn g) (s_nc g)))
     (emit s (EvCbEnd kd a r)).
Proof.
  intros H Hph. eapply QA_emit; eauto. intros V N T.
  split; [|split; [exact N|split; [reflexivity|intros _; reflexivity]]].
  eapply tk_cbdel with (kd := kd); eauto; try reflexivity.
  - simpl. destruct kd; simpl; auto.
  - simpl. destruct kd; simpl; auto.
Qed.

Lemma QA_ev_cbint RI TG V0 G s a g kd :
  QA RI TG V0 G (Some (a, g)) s -> ~ G ->
  (kd = KCancel /\ s_ph g = PhCan) \/ (kd = KEnd /\ s_ph g = PhEnd) ->
  QA RI TG V0 G (Some (a, upd_st g PhMid (s_ns g) (s_ncc g) (s_nec g) (s_cd g) (s_cn g) (s_nc g)))
     (emit s (EvCbInterrupted kd a)).
Proof.
  intros H HnG Hph. eapply QA_emit; eauto. intros V N T.
  split; [|split; [exact N|split; [reflexivity|intros HG; contradiction]]].
  eapply tk_cbdel with (kd := kd); eauto; try reflexivity; simpl; auto.
Qed.

Lemma QA_reph RI TG V0 G s a g p' :
  QA RI TG V0 G (Some (a, g)) s ->
  (s_ph g = PhNew \/ s_ph g = PhMid \/ s_ph g = PhOut) -> (p' = PhMid \/ p' = PhOut) ->
  QA RI TG V0 G (Some (a, set_ph g p')) s.
Proof. intros H Hp Hp'. eapply QA_restat; eauto. intros V T. apply tk_reph; auto. Qed.

Lemma QA_flags RI TG V0 G s a g :
  QA RI TG V0 G (Some (a, g)) s ->
  QA RI TG V0 G
    (Some (a, upd_st g (s_ph g) (s_ns g) (s_ncc g) (s_nec g) (s_cd g)
                     (match s_ph g with PhUC => true | _ => s_cn g end)
                     (match s_ph g with PhNew | PhLive => true | _ => s_nc g end))) s.
Proof. intros H. eapply QA_restat; eauto. intros V T. apply tk_flags; auto. Qed.

(** ** semaphore *)
Lemma QA_wake_next RI TG V0 G ov s : QA RI TG V0 G ov s -> QA RI TG V0 G ov (wake_next s).
Proof.
  intros H. unfold wake_next. destruct (first_pending s (sem_waiters s)); auto.
  destruct (get_m s n) as [x|] eqn:Hx; auto. apply QA_sched.
  apply QA_put_m; [exact H|]. exact (mok_get _ _ _ _ _ _ _ _ H Hx).
Qed.

Lemma QA_sem_release RI TG V0 G ov s : QA RI TG V0 G ov s -> QA RI TG V0 G ov (sem_release s).
Proof. intros H. unfold sem_release. apply QA_wake_next. exact H. Qed.

Lemma QA_map_release RI TG V0 G ov s m : QA RI TG V0 G ov s -> QA RI TG V0 G ov (map_release s m).
Proof.
  intros H. unfold map_release. destruct (get_m s m) as [x|] eqn:Hx; auto.
  pose proof (mok_get _ _ _ _ _ _ _ _ H Hx) as Hm.
  destruct (m_pc x); try (apply QA_put_m; [exact H|exact Hm]).
  destruct (m_fw x) as [[| | |]|]; try (apply QA_put_m; [exact H|exact Hm]).
  apply QA_sched. apply QA_put_m; [exact H|exact Hm].
Qed.

(** ** pool tasks *)
Lemma QA_finish_p RI TG V0 G s t g x :
  QA RI TG V0 G (Some (t, g)) s ->
  (s_ph g = PhNew \/ s_ph g = PhMid \/ s_ph g = PhOut) -> agree g x ->
  QA RI TG V0 G None (finish_p s t x).
Proof.
  intros H Hp Ha. unfold finish_p. apply QA_set_ctl, QA_sched_cbs.
  eapply QA_put_close with (g := set_ph g PhOut).
  - apply QA_reph; auto.
  - exact Ha.
  - reflexivity.
Qed.

Lemma QA_suspend_p RI TG V0 G s t g x pc :
  QA RI TG V0 G (Some (t, g)) s -> agree g x -> ph_of pc = s_ph g ->
  QA RI TG V0 G None (suspend_p s t x pc).
Proof.
  intros H Ha Hp. unfold suspend_p. destruct (p_mc x).
  - apply QA_set_ctl, QA_sched. eapply QA_put_close; eauto.
  - apply QA_set_ctl. eapply QA_put_close; eauto.
Qed.

Lemma QA_user_end RI TG V0 G s t g x cl c :
  QA RI TG V0 G (Some (t, g)) s -> s_ph g = PhMid -> agree g x -> s_nec g = 0 ->
  (G -> kend g) ->
  QA RI TG V0 G None
     (set_ctl (emit (put_p s t (set_p_pc (set_p_necb x (S (p_necb x))) PUEndCb))
                    (EvCbBegin KEnd t cl)) c).
Proof.
  intros H Hp Ha Hn Hk. apply QA_set_ctl.
  pose proof (QA_ev_cbbegin_end RI TG V0 G s t g cl H Hp Hn Hk) as H1.
  match goal with |- QA _ _ _ _ None (emit (put_p s t ?x') ?e) =>
    change (QA RI TG V0 G None (put_p (emit s e) t x')) end.
  eapply QA_put_close.
  - exact H1.
  - destruct Ha as (A1 & A2 & A3 & A4 & A5 & A6 & A7 & A8 & A9).
    unfold agree; cbn. repeat split; auto. congruence.
  - reflexivity.
Qed.

Lemma QA_user_can RI TG V0 G s t g x cl c :
  QA RI TG V0 G (Some (t, g)) s -> s_ph g = PhMid -> agree g x -> s_ncc g = 0 -> s_nec g = 0 ->
  (G -> ciff g) ->
  QA RI TG V0 G None
     (set_ctl (emit (put_p s t (set_p_pc (set_p_nccb x (S (p_nccb x))) PUCancelCb))
                    (EvCbBegin KCancel t cl)) c).
Proof.
  intros H Hp Ha Hn Hn' Hk. apply QA_set_ctl.
  pose proof (QA_ev_cbbegin_can RI TG V0 G s t g cl H Hp Hn Hn' Hk) as H1.
  match goal with |- QA _ _ _ _ None (emit (put_p s t ?x') ?e) =>
    change (QA RI TG V0 G None (put_p (emit s e) t x')) end.
  eapply QA_put_close.
  - exact H1.
  - destruct Ha as (A1 & A2 & A3 & A4 & A5 & A6 & A7 & A8 & A9).
    unfold agree; cbn. repeat split; auto. congruence.
  - reflexivity.
Qed.

Lemma QA_moved RI TG V0 G s1 t g x :
  QA RI TG V0 G (Some (t, g)) s1 -> s_ph g = PhMid -> agree g x -> s_nec g = 0 ->
  (G -> kend g) ->
  QA RI TG V0 G None (let s2 := set_t_ended s1 (dict_add (t_ended s1) t) in
     let s3 := sem_release s2 in
     let x := set_p_nrel x (S (p_nrel x)) in
     let s4 := if p_ismap x then map_release s3 (p_req x) else s3 in
     match p_ecb x with
     | CbNone => finish_p s4 t x
     | _ =>
        set_ctl (emit (put_p s4 t (set_p_pc (set_p_necb x (S (p_necb x))) PUEndCb))
                      (EvCbBegin KEnd t (classify s4 t)))
                (CUser (TP t))
     end).
Proof.
  intros H Hp Ha Hn Hk. cbv zeta.
  set (s3 := sem_release (set_t_ended s1 (dict_add (t_ended s1) t))).
  assert (H3 : QA RI TG V0 G (Some (t, g)) s3) by (apply QA_sem_release; exact H).
  set (x1 := set_p_nrel x (S (p_nrel x))).
  assert (Ha1 : agree g x1) by exact Ha.
  set (s4 := if p_ismap x1 then map_release s3 (p_req x1) else s3).
  assert (H4 : QA RI TG V0 G (Some (t, g)) s4).
  { unfold s4. destruct (p_ismap x1); auto. apply QA_map_release; auto. }
  clearbody s4. clear H3. clearbody s3. clearbody x1.
  destruct (p_ecb x1).
  - apply QA_finish_p with (g := g); auto.
  - apply QA_user_end with (g := g); auto.
  - apply QA_user_end with (g := g); auto.
Qed.

Lemma QA_enter_end RI TG V0 G s t g x :
  QA RI TG V0 G (Some (t, g)) s -> s_ph g = PhMid -> agree g x -> s_nec g = 0 ->
  (G -> kend g) ->
  QA RI TG V0 G None (enter_end s t x).
Proof.
  intros H Hp Ha Hn Hk. unfold enter_end.
  destruct (mem t (t_running s)); [|destruct (mem t (t_cancelled s))].
  - apply QA_moved with (g := g); auto.
  - apply QA_moved with (g := g); auto.
  - apply QA_finish_p with (g := g); auto.
Qed.

Lemma QA_enter_cancel RI TG V0 G s t g x :
  QA RI TG V0 G (Some (t, g)) s -> s_ph g = PhMid -> agree g x -> s_ncc g = 0 -> s_nec g = 0 ->
  (G -> ciff g) -> In t (t_running s) ->
  QA RI TG V0 G None (enter_cancel s t x).
Proof.
  intros H Hp Ha Hc Hn Hk Hr. unfold enter_cancel.
  apply mem_In in Hr. rewrite Hr.
  destruct (p_ccb x) eqn:Hccb.
  - apply QA_enter_end with (g := g); auto.
    intros _. right; right; right; left.
    destruct Ha as (_ & _ & _ & _ & _ & _ & _ & A8 & _). congruence.
  - apply QA_user_can with (g := g); auto.
  - apply QA_user_can with (g := g); auto.
Qed.

Lemma agree_cb_raise g x r st t : agree g x -> agree g (cb_raise x r st t).
Proof. unfold cb_raise. destruct r; auto. Qed.

Lemma has_cb_le c n : n <= PInv.has_cb c -> n = 1 -> c <> CbNone.
Proof. intros H -> ->. simpl in H. lia. Qed.

Lemma QA_continue_p RI TG V0 G s t :
  QA RI TG V0 G None s ->
  (forall x, get_p s t = Some x -> counts_ok x /\ (p_pc x = PUCancelled -> In t (t_running s))) ->
  QA RI TG V0 G None (continue_p s t).
Proof.
  intros H Hf. unfold continue_p.
  destruct (get_p s t) as [x|] eqn:Hx; auto.
  destruct (Hf x eq_refl) as [Hco Hrun].
  pose proof (QA_flags _ _ _ _ _ _ _ (QA_open RI TG V0 G s t x H Hx)) as Ho.
  pose proof (agree_st_of x) as Ha.
  unfold counts_ok in Hco. destruct Hco as (C1 & C2 & C3 & C4 & C5).
  destruct (p_pc x) eqn:Hpc; auto; cbn [st_of s_ph s_ns s_ncc s_nec s_cd s_cn s_nc ph_of] in Ho;
    rewrite Hpc in Ho; cbn [ph_of] in Ho.
  - (* PUStart *)
    destruct C5 as (D1 & D2 & D3 & D4).
    destruct (w_first (p_w x)).
    + eapply QA_suspend_p; [exact Ho|exact Ha|reflexivity].
    + eapply QA_enter_end.
      * apply QA_ev_exit; [exact Ho|left; reflexivity|cbn; lia].
      * reflexivity.
      * exact Ha.
      * cbn. exact D3.
      * intros _. right; left. reflexivity.
    + eapply QA_enter_end.
      * apply QA_ev_exit; [exact Ho|left; reflexivity|cbn; lia].
      * reflexivity.
      * exact Ha.
      * cbn. exact D3.
      * intros _. right; left. reflexivity.
  - (* PUResume *)
    destruct C5 as (D1 & D2 & D3 & D4).
    destruct (p_fin x).
    + eapply QA_enter_end.
      * apply QA_ev_exit; [exact Ho|left; reflexivity|cbn; lia].
      * reflexivity.
      * exact Ha.
      * cbn. exact D3.
      * intros _. right; left. reflexivity.
    + eapply QA_enter_end.
      * apply QA_ev_exit; [exact Ho|left; reflexivity|cbn; lia].
      * reflexivity.
      * exact Ha.
      * cbn. exact D3.
      * intros _. right; left. reflexivity.
  - (* PUCancelled *)
    destruct C5 as (D1 & D2 & D3 & D4).
    destruct (w_cancel (p_w x)) eqn:Hw.
    + eapply QA_enter_cancel.
      * apply QA_ev_exit; [exact Ho|right; reflexivity|cbn; lia].
      * reflexivity.
      * exact Ha.
      * cbn. exact D2.
      * cbn. exact D3.
      * intros _. split; cbn; [lia|]. intros _. split; [reflexivity|exact Hw].
      * apply Hrun. reflexivity.
    + eapply QA_enter_end.
      * apply QA_ev_exit; [exact Ho|right; reflexivity|cbn; lia].
      * reflexivity.
      * exact Ha.
      * cbn. exact D3.
      * intros _. right; right; left. cbn. exact Hw.
  - (* PUCancelCb *)
    destruct C5 as (D1 & D2 & D3).
    destruct (p_ccb x) as [|r|slow r] eqn:Hccb.
    + exfalso. simpl in C2. lia.
    + eapply QA_enter_end.
      * eapply QA_ev_cbend with (kd := KCancel); [exact Ho|left; split; reflexivity].
      * reflexivity.
      * apply agree_cb_raise. exact Ha.
      * cbn. exact D2.
      * intros _. right; right; right; right. reflexivity.
    + destruct slow.
      * eapply QA_suspend_p; [exact Ho|exact Ha|reflexivity].
      * eapply QA_enter_end.
        -- eapply QA_ev_cbend with (kd := KCancel); [exact Ho|left; split; reflexivity].
        -- reflexivity.
        -- apply agree_cb_raise. exact Ha.
        -- cbn. exact D2.
        -- intros _. right; right; right; right. reflexivity.
  - (* PUEndCb *)
    destruct C5 as (D1 & D2).
    destruct (p_ecb x) as [|r|slow r] eqn:Hecb.
    + exfalso. simpl in C3. lia.
    + eapply QA_finish_p.
      * eapply QA_ev_cbend with (kd := KEnd); [exact Ho|right; split; reflexivity].
      * right; left; reflexivity.
      * apply agree_cb_raise. exact Ha.
    + destruct slow.
      * eapply QA_suspend_p; [exact Ho|exact Ha|reflexivity].
      * eapply QA_finish_p.
        -- eapply QA_ev_cbend with (kd := KEnd); [exact Ho|right; split; reflexivity].
        -- right; left; reflexivity.
        -- apply agree_cb_raise. exact Ha.
Qed.

Lemma QA_run_p RI TG V0 G s t :
  QA RI TG V0 G None s ->
  (forall x0, get_p s t = Some x0 ->
     counts_ok x0 /\ matches RI (st_of x0) /\
     (p_pc x0 = PCreated -> In t (t_running s)) /\
     (G -> p_pc x0 = PWaitCcb \/ p_pc x0 = PWaitEcb ->
           task_input (p_mc x0) (p_fw x0) = InOk)) ->
  QA RI TG V0 G None (run_p s t).
Proof.
  intros H Hf. unfold run_p.
  destruct (get_p s t) as [x0|] eqn:Hx; auto.
  destruct (Hf x0 eq_refl) as (Hco & Hm & Hrun & Hlate).
  pose proof (QA_open RI TG V0 G s t x0 H Hx) as Ho.
  pose proof (agree_st_of x0) as Ha.
  unfold counts_ok in Hco. destruct Hco as (C1 & C2 & C3 & C4 & C5).
  set (x := set_p_mc (set_p_fw x0 None) false).
  assert (Hax : agree (st_of x0) x) by exact Ha.
  destruct (p_pc x0) eqn:Hpc; auto.
  - (* PCreated *)
    destruct C5 as (D1 & D2 & D3 & D4).
    destruct (task_input (p_mc x0) (p_fw x0)).
    + destruct (p_unst x) eqn:Hu.
      * (* start *)
        apply QA_set_ctl.
        match goal with |- QA _ _ _ _ None (emit (put_p s t ?x') ?e) =>
          change (QA RI TG V0 G None (put_p (emit s e) t x')) end.
        eapply QA_put_close.
        -- apply (QA_ev_start RI TG V0 G s t (st_of x0) Ho); auto.
           cbn. rewrite Hpc. reflexivity.
        -- destruct Ha as (A1 & A2 & A3 & A4 & A5 & A6 & A7 & A8 & A9).
           unfold agree; cbn. repeat split; auto; try congruence; try discriminate.
        -- reflexivity.
      * apply QA_set_ctl.
        match goal with |- QA _ _ _ _ None (emit (put_p s t ?x') ?e) =>
          change (QA RI TG V0 G None (put_p (emit s e) t x')) end.
        eapply QA_put_close.
        -- apply (QA_ev_start RI TG V0 G s t (st_of x0) Ho); auto.
           cbn. rewrite Hpc. reflexivity.
        -- destruct Ha as (A1 & A2 & A3 & A4 & A5 & A6 & A7 & A8 & A9).
           unfold agree; cbn. repeat split; auto; try congruence; try discriminate.
        -- reflexivity.
      * (* deferred cancellation *)
        eapply QA_enter_cancel with (g := set_ph (st_of x0) PhMid).
        -- apply QA_reph; [exact Ho|left; cbn; rewrite Hpc; reflexivity|left; reflexivity].
        -- reflexivity.
        -- destruct Ha as (A1 & A2 & A3 & A4 & A5 & A6 & A7 & A8 & A9).
           unfold agree; cbn. repeat split; auto; try discriminate.
        -- cbn. exact D2.
        -- cbn. exact D3.
        -- intros _. split; cbn.
           ++ intros _. change (p_unst x) with (p_unst x0) in Hu. rewrite Hu. reflexivity.
           ++ intros Hn. congruence.
        -- apply Hrun. reflexivity.
    + eapply QA_finish_p; [exact Ho|left; cbn; rewrite Hpc; reflexivity|exact Hax].
    + eapply QA_finish_p; [exact Ho|left; cbn; rewrite Hpc; reflexivity|exact Hax].
  - (* PWaitGate *)
    destruct (task_input (p_mc x0) (p_fw x0)).
    + apply QA_set_ctl. eapply QA_put_close; [exact Ho|exact Hax|].
      cbn. rewrite Hpc. reflexivity.
    + apply QA_set_ctl.
      match goal with |- QA _ _ _ _ None (emit (put_p s t ?x') ?e) =>
        change (QA RI TG V0 G None (put_p (emit s e) t x')) end.
      eapply QA_put_close.
      * apply (QA_ev_cancelled RI TG V0 G s t (st_of x0) Ho). cbn. rewrite Hpc. reflexivity.
      * exact Hax.
      * reflexivity.
    + apply QA_set_ctl.
      match goal with |- QA _ _ _ _ None (emit (put_p s t ?x') ?e) =>
        change (QA RI TG V0 G None (put_p (emit s e) t x')) end.
      eapply QA_put_close.
      * apply (QA_ev_cancelled RI TG V0 G s t (st_of x0) Ho). cbn. rewrite Hpc. reflexivity.
      * exact Hax.
      * reflexivity.
  - (* PWaitCcb *)
    destruct C5 as (D1 & D2 & D3).
    assert (Hph : s_ph (st_of x0) = PhCan) by (cbn; rewrite Hpc; reflexivity).
    destruct (task_input (p_mc x0) (p_fw x0)) eqn:Hti.
    + eapply QA_enter_end.
      * eapply QA_ev_cbend with (kd := KCancel); [exact Ho|left; split; [reflexivity|exact Hph]].
      * reflexivity.
      * apply agree_cb_raise. exact Hax.
      * cbn. exact D2.
      * intros _. right; right; right; right. reflexivity.
    + assert (HnG : ~ G) by (intros HG; specialize (Hlate HG (or_introl eq_refl)); discriminate).
      eapply QA_enter_end.
      * eapply QA_ev_cbint with (kd := KCancel); [exact Ho|exact HnG|left; split; [reflexivity|exact Hph]].
      * reflexivity.
      * exact Hax.
      * cbn. exact D2.
      * intros HG. contradiction.
    + assert (HnG : ~ G) by (intros HG; specialize (Hlate HG (or_introl eq_refl)); discriminate).
      eapply QA_enter_end.
      * eapply QA_ev_cbint with (kd := KCancel); [exact Ho|exact HnG|left; split; [reflexivity|exact Hph]].
      * reflexivity.
      * exact Hax.
      * cbn. exact D2.
      * intros HG. contradiction.
  - (* PWaitEcb *)
    assert (Hph : s_ph (st_of x0) = PhEnd) by (cbn; rewrite Hpc; reflexivity).
    destruct (task_input (p_mc x0) (p_fw x0)) eqn:Hti.
    + eapply QA_finish_p.
      * eapply QA_ev_cbend with (kd := KEnd); [exact Ho|right; split; [reflexivity|exact Hph]].
      * right; left; reflexivity.
      * apply agree_cb_raise. exact Hax.
    + assert (HnG : ~ G) by (intros HG; specialize (Hlate HG (or_intror eq_refl)); discriminate).
      eapply QA_finish_p.
      * eapply QA_ev_cbint with (kd := KEnd); [exact Ho|exact HnG|right; split; [reflexivity|exact Hph]].
      * right; left; reflexivity.
      * exact Hax.
    + assert (HnG : ~ G) by (intros HG; specialize (Hlate HG (or_intror eq_refl)); discriminate).
      eapply QA_finish_p.
      * eapply QA_ev_cbint with (kd := KEnd); [exact Ho|exact HnG|right; split; [reflexivity|exact Hph]].
      * right; left; reflexivity.
      * exact Hax.
Qed.

(** ** spawners *)
Lemma QA_finish_m RI TG V0 G ov s m x e :
  QA RI TG V0 G ov s -> mok RI m x -> QA RI TG V0 G ov (finish_m s m x e).
Proof.
  intros H Hm. unfold finish_m. apply QA_set_ctl, QA_sched_cbs, QA_put_m; auto.
Qed.

Lemma QA_suspend_m RI TG V0 G ov s m x pc :
  QA RI TG V0 G ov s -> mok RI m x -> QA RI TG V0 G ov (suspend_m s m x pc).
Proof.
  intros H Hm. unfold suspend_m. destruct (m_mc x).
  - apply QA_set_ctl, QA_sched, QA_put_m; auto.
  - apply QA_set_ctl, QA_put_m; auto.
Qed.

Lemma QA_to_iter RI TG V0 G ov s m : QA RI TG V0 G ov s -> QA RI TG V0 G ov (to_iter s m).
Proof.
  intros H. unfold to_iter. destruct (get_m s m) as [x|] eqn:Hx; [|exact H].
  apply QA_set_ctl, QA_emit_other; [reflexivity|]. apply QA_put_m; auto.
  exact (mok_get _ _ _ _ _ _ _ _ H Hx).
Qed.

Lemma tk_new RI TG V u g :
  taskok RI TG V u None -> s_ph g = PhNew -> s_ns g = 0 -> s_ncc g = 0 -> s_nec g = 0 ->
  s_cd g = false -> s_cn g = false -> s_nc g = false -> s_def g = false ->
  taskok RI TG V u (Some g).
Proof.
  intros (A1 & A2 & A3 & A4 & A5 & A6 & A7) P1 P2 P3 P4 P5 P6 P7 P8. unfold taskok, live_ph.
  rewrite P1, P2, P3, P4, P5, P6, P7, P8.
  pose proof (A5 KCancel). pose proof (A5 KEnd).
  intuition (try congruence).
Qed.

Lemma QA_register RI TG V0 G s m x :
  QA RI TG V0 G None s -> mok RI m x -> QA RI TG V0 G None (register s m x).
Proof.
  intros H Hm. unfold register. apply QA_put_m; [|exact Hm]. apply QA_sched.
  eapply QA_chg; [exact H|reflexivity|reflexivity|].
  intros V (N & T & L). split; [exact N|]. split; [|intros a' g' E; discriminate E].
  intros u. specialize (T u). unfold st_at, get_p in *.
  cbn [ptasks set_t_running set_ptasks set_num_started set_groups].
  destruct (lt_eq_lt_dec u (length (ptasks s))) as [[Hlt|Heq]|Hgt].
  - rewrite nth_error_app1 by auto. exact T.
  - subst u. rewrite nth_error_snoc_eq.
    assert (Hn : nth_error (ptasks s) (length (ptasks s)) = None) by (apply nth_error_None; auto).
    rewrite Hn in T. cbn [option_map] in *. apply tk_new; auto.
  - assert (Hn : nth_error (ptasks s) u = None) by (apply nth_error_None; lia).
    rewrite Hn in T.
    match goal with |- taskok _ _ _ _ (option_map _ ?o) => assert (Hn' : o = None) end.
    { apply nth_error_None. rewrite app_length. simpl. lia. }
    rewrite Hn'. exact T.
Qed.

Lemma mok_register RI TG V0 G s m x :
  QA RI TG V0 G None s -> m < length (mtasks s) -> mok RI m x ->
  exists x', get_m (register s m x) m = Some x' /\ mok RI m x'.
Proof.
  intros H Hlt Hm. unfold register. eexists. split.
  - apply get_m_put_m_eq. rewrite mtasks_sched. exact Hlt.
  - exact Hm.
Qed.

Lemma QA_apply_loop RI TG V0 G rem : forall s m,
  QA RI TG V0 G None s -> QA RI TG V0 G None (apply_loop rem s m).
Proof.
  induction rem as [|r IH]; intros s m H; simpl.
  - destruct (get_m s m) as [x|] eqn:Hx; auto. apply QA_finish_m; auto.
    exact (mok_get _ _ _ _ _ _ _ _ H Hx).
  - destruct (get_m s m) as [x|] eqn:Hx; auto.
    pose proof (mok_get _ _ _ _ _ _ _ _ H Hx) as Hm.
    destruct (nth (m_idx x) (m_bad x) false).
    + apply IH. apply QA_put_m; auto.
    + unfold try_start. destruct (closed s).
      * apply QA_finish_m; auto.
      * destruct (sem_locked s).
        -- apply QA_suspend_m; auto.
        -- apply IH. apply QA_register; auto.
Qed.

Lemma QA_spawn_next RI TG V0 G s m :
  QA RI TG V0 G None s -> QA RI TG V0 G None (spawn_next s m).
Proof.
  intros H. unfold spawn_next. destruct (get_m s m) as [x|]; auto.
  destruct (m_kind x); [apply QA_apply_loop|apply QA_to_iter|apply QA_apply_loop]; auto.
Qed.

Lemma QA_start_then_next RI TG V0 G s m x :
  QA RI TG V0 G None s -> mok RI m x -> QA RI TG V0 G None (start_then_next s m x).
Proof.
  intros H Hm. unfold start_then_next, try_start.
  destruct (closed s).
  - apply QA_finish_m; auto.
  - destruct (sem_locked s).
    + apply QA_suspend_m; auto.
    + apply QA_spawn_next, QA_register; auto.
Qed.

Lemma QA_continue_m RI TG V0 G s m :
  QA RI TG V0 G None s -> QA RI TG V0 G None (continue_m s m).
Proof.
  intros H. unfold continue_m. destruct (get_m s m) as [x|] eqn:Hx; auto.
  pose proof (mok_get _ _ _ _ _ _ _ _ H Hx) as Hm.
  destruct (m_pc x); auto.
  destruct (nth_error (m_els x) (m_idx x)) as [e|].
  - destruct (e_bad e).
    + apply QA_to_iter. apply QA_put_m; auto.
    + destruct (m_mapval x).
      * apply QA_suspend_m; auto.
      * apply QA_start_then_next; auto.
  - apply QA_finish_m; auto.
Qed.

Lemma QA_run_m RI TG V0 G s m :
  QA RI TG V0 G None s -> QA RI TG V0 G None (run_m s m).
Proof.
  intros H. unfold run_m. destruct (get_m s m) as [x0|] eqn:Hx; auto.
  pose proof (mok_get _ _ _ _ _ _ _ _ H Hx) as Hm.
  destruct (m_pc x0); auto.
  - destruct (task_input (m_mc x0) (m_fw x0)).
    + apply QA_spawn_next. apply QA_put_m; auto.
    + apply QA_finish_m; auto.
    + apply QA_finish_m; auto.
  - destruct (task_input (m_mc x0) (m_fw x0)).
    + apply QA_start_then_next; auto.
    + apply QA_finish_m; [exact H|].
      destruct (match m_fw x0 with Some FCancelled => true | _ => false end); exact Hm.
    + apply QA_finish_m; [exact H|].
      destruct (match m_fw x0 with Some FCancelled => true | _ => false end); exact Hm.
  - set (x := set_m_mc (set_m_fw x0 None) false).
    assert (Hmx : mok RI m x) by exact Hm.
    set (s1 := put_m (set_sem_waiters s (remove1 m (sem_waiters s))) m x).
    assert (H1 : QA RI TG V0 G None s1) by (unfold s1; apply QA_put_m; [exact H|exact Hmx]).
    clearbody s1.
    destruct (task_input (m_mc x0) (m_fw x0)).
    + apply QA_spawn_next, QA_register; auto.
      destruct (ninf_pos (sem_value s1)); auto. apply QA_wake_next; auto.
    + apply QA_finish_m.
      * destruct (match m_fw x0 with Some FCancelled => true | _ => false end); auto.
        apply QA_sem_release; auto.
      * destruct (m_holds x); exact Hmx.
    + apply QA_finish_m.
      * destruct (match m_fw x0 with Some FCancelled => true | _ => false end); auto.
        apply QA_sem_release; auto.
      * destruct (m_holds x); exact Hmx.
Qed.

(** ** drivers *)
Lemma QA_finish_d RI TG V0 G ov s d x e : QA RI TG V0 G ov s -> QA RI TG V0 G ov (finish_d s d x e).
Proof.
  intros H. unfold finish_d. apply QA_set_ctl, QA_emit_other; [reflexivity|]. exact H.
Qed.

Lemma QA_wake_closed RI TG V0 G ov l : forall s,
  QA RI TG V0 G ov s -> QA RI TG V0 G ov (wake_closed s l).
Proof.
  induction l as [|d l IH]; simpl; intros s H; auto.
  apply IH. destruct (get_d s d) as [x|]; auto.
  destruct (fut_pending (d_fw x)); auto. apply QA_sched. exact H.
Qed.

Lemma QA_after_g2 RI TG V0 G ov s d x outer :
  QA RI TG V0 G ov s -> QA RI TG V0 G ov (after_g2 s d x outer).
Proof.
  intros H. unfold after_g2.
  destruct outer; try (apply QA_finish_d; exact H);
    (destruct (d_kind x); [apply QA_finish_d; exact H| |apply QA_finish_d; exact H]);
    apply QA_finish_d, QA_wake_closed; exact H.
Qed.

Lemma QA_start_g2 RI TG V0 G ov s d x cs re :
  QA RI TG V0 G ov s -> QA RI TG V0 G ov (start_g2 s d x cs re).
Proof.
  intros H. unfold start_g2. destruct (make_gather s (map TP cs) re) as [g outer].
  destruct outer; try (apply QA_after_g2; exact H). exact H.
Qed.

Lemma QA_after_g1 RI TG V0 G ov s d x outer :
  QA RI TG V0 G ov s -> QA RI TG V0 G ov (after_g1 s d x outer).
Proof.
  intros H. unfold after_g1. destruct (d_kind x) as [re|re|].
  - destruct outer as [| |[]|]; try (apply QA_finish_d; exact H); apply QA_start_g2; exact H.
  - destruct (if re then None else first_exception s
        (match d_g1 x with Some g => g_children g | None => [] end)).
    + apply QA_finish_d; exact H.
    + apply QA_start_g2; exact H.
  - apply QA_finish_d; exact H.
Qed.

Lemma QA_start_g1 RI TG V0 G ov s d x cs re :
  QA RI TG V0 G ov s -> QA RI TG V0 G ov (start_g1 s d x cs re).
Proof.
  intros H. unfold start_g1. destruct (make_gather s (map TM cs) re) as [g outer].
  destruct outer; try (apply QA_after_g1; exact H). exact H.
Qed.

Lemma QA_run_d RI TG V0 G ov s d : QA RI TG V0 G ov s -> QA RI TG V0 G ov (run_d s d).
Proof.
  intros H. unfold run_d. destruct (get_d s d) as [x0|]; auto.
  destruct (d_pc x0); auto.
  - cbn [d_kind set_d_fw]. destruct (d_kind x0) as [re|re|].
    + destruct (pop_ended s (gmeta s)) as [gm ended]. apply QA_start_g1. exact H.
    + apply QA_start_g1. exact H.
    + destruct (closed s); [apply QA_finish_d|]; exact H.
  - apply QA_after_g1; auto.
  - apply QA_after_g2; auto.
  - apply QA_finish_d. exact H.
Qed.

Lemma QA_run_g RI TG V0 G ov s d c : QA RI TG V0 G ov s -> QA RI TG V0 G ov (run_g s d c).
Proof.
  intros H. unfold run_g. destruct (get_d s d) as [x|]; auto.
  destruct (tref_final s c) as [o|]; auto.
  destruct (match c with TM _ => true | _ => false end);
    (match goal with |- QA _ _ _ _ _ (match ?g with Some _ => _ | None => _ end) =>
       destruct g as [g0|]; auto end;
     match goal with |- QA _ _ _ _ _ (match ?f with Some _ => _ | None => _ end) =>
       destruct f as [[| | |]|]; try exact H end;
     match goal with |- QA _ _ _ _ _ (let '(_, _) := ?p in _) => destruct p as [nfin outer] end;
     destruct outer; try exact H; apply QA_sched; exact H).
Qed.

(** ** one handle-running or continue step *)
Definition pfacts (RI : list rimm) (G : Prop) (s : state) : Prop :=
  forall t x, get_p s t = Some x ->
    counts_ok x /\ matches RI (st_of x) /\
    (p_pc x = PCreated \/ p_pc x = PUCancelled -> In t (t_running s)) /\
    (G -> p_pc x = PWaitCcb \/ p_pc x = PWaitEcb -> task_input (p_mc x) (p_fw x) = InOk).

Theorem InvA_step_rg RI TG V G s l :
  (forall o, l <> LOp o) ->
  InvA RI TG V s None -> map imm_m (mtasks s) = RI -> pfacts RI G s ->
  let r := avrun RI TG (evs (step s l)) V in
  InvA RI TG (fst (fst r)) (step s l) None /\ snd (fst r) = true /\ (G -> snd r = true) /\
  map imm_m (mtasks (step s l)) = RI.
Proof.
  intros Hl HI HM HF. change (QA RI TG V G None (step s l)).
  unfold step.
  set (s1 := set_res (set_evs s []) RNone).
  assert (H : QA RI TG V G None s1).
  { unfold QA. cbn. split; [exact HI|]. split; [reflexivity|]. split; [reflexivity|exact HM]. }
  assert (HF1 : pfacts RI G s1) by exact HF.
  clearbody s1.
  destruct (negb (enabled s1 l)); [exact H|].
  destruct l as [h| |o].
  - assert (H2 : QA RI TG V G None (unsched s1 h)) by exact H.
    destruct h as [[t|m|d]|d c]; simpl run_handle.
    + apply QA_run_p; auto. intros x0 Hx0.
      destruct (HF1 t x0 Hx0) as (A & B & C & D).
      split; [exact A|split; [exact B|split; [|exact D]]].
      intros E. apply C. left. exact E.
    + apply QA_run_m; auto.
    + apply QA_run_d; auto.
    + apply QA_run_g; auto.
  - destruct (ctl s1) as [|[t|m|d]]; auto.
    + apply QA_continue_p; auto. intros x0 Hx0.
      destruct (HF1 t x0 Hx0) as (A & B & C & D). split; [exact A|].
      intros E. apply C. right. exact E.
    + apply QA_continue_m; auto.
  - exfalso. apply (Hl o). reflexivity.
Qed.
