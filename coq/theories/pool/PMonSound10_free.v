(** Monitor soundness, C10 — generated names: the monitor's [least_free] on the previous
    observation and the model's [find_free] on the pool's groups compute the same index (the
    least one not in use); the fuel of either suffices because at most [length (groups s)] names
    are in use and every live name is known to the observer. *)
From TP Require Import PInv PInv_Q PMon PMonSound_kn PMonSound_C06_mod PMonSound_C06.

(** ** the common search *)
Fixpoint lf (P : nat -> bool) (fuel i : nat) : nat :=
  match fuel with
  | O => i
  | S f => if P i then lf P f (S i) else i
  end.

Lemma find_free_lf meth gs fuel : forall i,
  find_free meth gs fuel i = lf (fun j => ghas (GGen meth j) gs) fuel i.
Proof. induction fuel as [|f IH]; intros i; simpl; auto. rewrite IH. reflexivity. Qed.

Lemma least_free_lf p meth fuel : forall i,
  least_free p meth fuel i = lf (fun j => group_live p (GGen meth j)) fuel i.
Proof. induction fuel as [|f IH]; intros i; simpl; auto. rewrite IH. reflexivity. Qed.

Lemma lf_ext P Q fuel : (forall j, P j = Q j) -> forall i, lf P fuel i = lf Q fuel i.
Proof.
  intros H. induction fuel as [|f IH]; intros i; simpl; auto. rewrite H, IH. reflexivity.
Qed.

(** more fuel does not change a result that is free *)
Lemma lf_stable P : forall f f' i, P (lf P f i) = false -> f <= f' -> lf P f' i = lf P f i.
Proof.
  induction f as [|f IH]; intros f' i Hfree Hle; simpl in *.
  - destruct f' as [|f']; simpl; auto. rewrite Hfree. reflexivity.
  - destruct f' as [|f']; [lia|]. simpl. destruct (P i) eqn:E; auto. apply IH; auto. lia.
Qed.

(** a result that is in use means that the whole range searched is in use *)
Lemma lf_used P : forall f i, P (lf P f i) = true ->
  lf P f i = i + f /\ forall j, i <= j <= i + f -> P j = true.
Proof.
  induction f as [|f IH]; intros i H; simpl in *.
  - split; [lia|]. intros j Hj. assert (j = i) by lia. subst. exact H.
  - destruct (P i) eqn:E; [|congruence].
    destruct (IH (S i) H) as [A B]. split; [lia|].
    intros j Hj. destruct (Nat.eq_dec j i) as [->|Ne]; auto. apply B. lia.
Qed.

(** ** pigeonhole: [S (length gs)] steps always find a free index *)
Lemma ghas_In_keys g (gs : list (gname * list nat)) : ghas g gs = true -> In g (map fst gs).
Proof.
  unfold ghas. destruct (glookup g gs) as [ids|] eqn:E; [|discriminate]. intros _.
  apply glookup_In in E. apply in_map_iff. exists (g, ids). auto.
Qed.

Lemma find_free_is_free meth gs :
  ghas (GGen meth (find_free meth gs (S (length gs)) 0)) gs = false.
Proof.
  rewrite find_free_lf. set (P := fun j => ghas (GGen meth j) gs).
  destruct (P (lf P (S (length gs)) 0)) eqn:E; [|exact E]. exfalso.
  destruct (lf_used P _ _ E) as [_ Hall].
  assert (Hincl : incl (map (GGen meth) (seq 0 (S (S (length gs))))) (map fst gs)).
  { intros g Hg. apply in_map_iff in Hg. destruct Hg as (j & <- & Hj). apply in_seq in Hj.
    apply ghas_In_keys. apply (Hall j). lia. }
  assert (Hnd : NoDup (map (GGen meth) (seq 0 (S (S (length gs)))))).
  { apply FinFun.Injective_map_NoDup; [|apply seq_NoDup]. intros a b Hab. congruence. }
  pose proof (NoDup_incl_length Hnd Hincl) as Hlen.
  rewrite !map_length, seq_length in Hlen. lia.
Qed.

(** ** the monitor's search on an observation of [s] *)
Theorem least_free_obs s lp enp meth :
  KN s -> NoDup (map fst (groups s)) ->
  least_free (obs_of s lp enp) meth (S (length (o_groups (obs_of s lp enp)))) 0 =
  find_free meth (groups s) (S (length (groups s))) 0.
Proof.
  intros HK Hnd. rewrite least_free_lf, find_free_lf.
  set (P := fun j => ghas (GGen meth j) (groups s)).
  rewrite (lf_ext (fun j => group_live (obs_of s lp enp) (GGen meth j)) P).
  2:{ intros j. unfold group_live, P, ghas. rewrite group_ids_obs by exact HK. reflexivity. }
  apply lf_stable.
  - pose proof (find_free_is_free meth (groups s)) as H. rewrite find_free_lf in H. exact H.
  - cbn [o_groups obs_of]. rewrite map_length.
    assert (Hincl : incl (map fst (groups s)) (known s)).
    { intros g Hg. apply (proj1 HK). apply in_map_iff in Hg. destruct Hg as ([g' ids] & <- & Hin).
      cbn [fst]. unfold ghas. rewrite (In_glookup g' (groups s) ids Hnd Hin). reflexivity. }
    pose proof (NoDup_incl_length Hnd Hincl) as Hlen. rewrite map_length in Hlen. lia.
Qed.
