(** Association lists keyed by group name: gadd / gremove / pop_ended. *)
From Coq Require Import Permutation.
From TP Require Export PInv_G_Base.

Definition gvals (l : list (gname * list nat)) : list nat := concat (map snd l).

Lemma glookup_gadd_same g x l : exists ms, glookup g (gadd g x l) = Some ms /\ In x ms.
Proof.
  induction l as [|[h v] t IH]; simpl.
  - rewrite gname_eqb_refl. exists [x]. simpl; auto.
  - destruct (gname_eqb g h) eqn:E; simpl; rewrite E.
    + exists (dict_add v x). split; auto. apply dict_add_In. auto.
    + exact IH.
Qed.

Lemma glookup_gadd_other g g' x l : g' <> g -> glookup g' (gadd g x l) = glookup g' l.
Proof.
  intros Hne. induction l as [|[h v] t IH]; simpl.
  - destruct (gname_eqb_spec g' g); congruence.
  - destruct (gname_eqb_spec g h) as [->|Hgh]; simpl.
    + destruct (gname_eqb_spec g' h); congruence.
    + destruct (gname_eqb g' h); auto.
Qed.

Lemma glookup_gadd_mono g g' x l ms y :
  glookup g' l = Some ms -> In y ms ->
  exists ms', glookup g' (gadd g x l) = Some ms' /\ In y ms'.
Proof.
  induction l as [|[h v] t IH]; simpl; [discriminate|].
  destruct (gname_eqb g' h) eqn:E1.
  - intros HH Hy. inversion HH; subst v.
    destruct (gname_eqb g h) eqn:E2; simpl; rewrite E1.
    + exists (dict_add ms x). split; auto. apply dict_add_In; auto.
    + exists ms; auto.
  - intros HH Hy. destruct (gname_eqb g h) eqn:E2; simpl; rewrite E1; eauto.
Qed.

Lemma gvals_gadd_perm g x l :
  Permutation (gvals (gadd g x l)) (gvals l) \/ Permutation (gvals (gadd g x l)) (x :: gvals l).
Proof.
  unfold gvals. induction l as [|[h v] t IH]; simpl.
  - right. apply Permutation_refl.
  - destruct (gname_eqb g h); simpl.
    + unfold dict_add. destruct (mem x v); [left; apply Permutation_refl|right].
      rewrite <- app_assoc. simpl.
      apply Permutation_sym. apply Permutation_middle.
    + destruct IH as [IH|IH]; [left|right].
      * apply Permutation_app_head; auto.
      * eapply Permutation_trans; [apply Permutation_app_head; exact IH|].
        apply Permutation_sym. apply Permutation_middle.
Qed.

Lemma gvals_gadd_In g x l y : In y (gvals (gadd g x l)) <-> In y (gvals l) \/ y = x.
Proof.
  destruct (gvals_gadd_perm g x l) as [P|P].
  - split.
    + intros H. left. eapply Permutation_in; eauto.
    + intros [H| ->].
      * eapply Permutation_in; [apply Permutation_sym; eauto|auto].
      * destruct (glookup_gadd_same g x l) as [ms [Hl Hin]].
        clear P. revert ms Hl Hin. unfold gvals.
        induction (gadd g x l) as [|[h v] t IH]; simpl; [discriminate|].
        intros ms. destruct (gname_eqb g h).
        -- intros HH Hin. inversion HH; subst. apply in_or_app; auto.
        -- intros HH Hin. apply in_or_app. right. eapply IH; eauto.
  - split.
    + intros H. eapply Permutation_in in H; [|exact P]. simpl in H. intuition.
    + intros H. eapply Permutation_in; [apply Permutation_sym; exact P|]. simpl. intuition.
Qed.

Lemma gadd_keys_In g x l k : In k (map fst (gadd g x l)) -> In k (map fst l) \/ k = g.
Proof.
  induction l as [|[h v] t IH]; simpl.
  - intros [<-|[]]; auto.
  - destruct (gname_eqb g h); simpl; intuition.
Qed.

Lemma gadd_keys_NoDup g x l : NoDup (map fst l) -> NoDup (map fst (gadd g x l)).
Proof.
  induction l as [|[h v] t IH]; simpl; intros H.
  - constructor; [simpl; tauto|constructor].
  - inversion H as [|? ? Hnin Hnd]; subst.
    destruct (gname_eqb_spec g h) as [->|Hne]; simpl.
    + constructor; auto.
    + constructor; auto. intros Hin. apply gadd_keys_In in Hin. destruct Hin; [tauto|congruence].
Qed.

Lemma NoDup_app_gadd a g x l :
  NoDup (a ++ gvals l) -> ~ In x (a ++ gvals l) -> NoDup (a ++ gvals (gadd g x l)).
Proof.
  intros H Hx. destruct (gvals_gadd_perm g x l) as [P|P].
  - eapply Permutation_NoDup; [|exact H]. apply Permutation_app_head. apply Permutation_sym; auto.
  - eapply Permutation_NoDup with (l := x :: a ++ gvals l).
    + eapply Permutation_trans; [apply Permutation_middle|].
      apply Permutation_app_head. apply Permutation_sym; auto.
    + constructor; auto.
Qed.

(** gremove *)
Lemma glookup_gremove_other g g' l : g' <> g -> glookup g' (gremove g l) = glookup g' l.
Proof.
  intros Hne. induction l as [|[h v] t IH]; simpl; auto.
  destruct (gname_eqb_spec g h) as [->|Hgh]; simpl.
  - destruct (gname_eqb_spec g' h); congruence.
  - destruct (gname_eqb g' h); auto.
Qed.

Lemma gvals_gremove_perm g l ms :
  glookup g l = Some ms -> Permutation (gvals l) (ms ++ gvals (gremove g l)).
Proof.
  unfold gvals. induction l as [|[h v] t IH]; simpl; [discriminate|].
  destruct (gname_eqb g h).
  - intros HH; inversion HH; subst. apply Permutation_refl.
  - intros HH. simpl. eapply Permutation_trans; [apply Permutation_app_head; apply IH; auto|].
    rewrite !app_assoc. apply Permutation_app_tail. apply Permutation_app_comm.
Qed.

Lemma gremove_keys_In g l k : In k (map fst (gremove g l)) -> In k (map fst l).
Proof.
  induction l as [|[h v] t IH]; simpl; auto.
  destruct (gname_eqb g h); simpl; intuition.
Qed.

Lemma gremove_keys_NoDup g l : NoDup (map fst l) -> NoDup (map fst (gremove g l)).
Proof.
  induction l as [|[h v] t IH]; simpl; intros H; auto.
  inversion H as [|? ? Hnin Hnd]; subst.
  destruct (gname_eqb g h); simpl; auto. constructor; auto.
  intros Hin. apply gremove_keys_In in Hin. tauto.
Qed.

Lemma glookup_In_gvals g l ms x : glookup g l = Some ms -> In x ms -> In x (gvals l).
Proof.
  intros H Hx. eapply Permutation_in; [apply Permutation_sym, gvals_gremove_perm; eauto|].
  apply in_or_app; auto.
Qed.
