(** Extra invariant, part 1: per-spawner predicate [xs_ok], quiet similarity [qsim], the
    relation [PQ] ("only quiet changes") and its closure properties. *)
From TP Require Export PInv_Q_main.
Set Implicit Arguments. Unset Strict Implicit.

Definition xs_ok (s : state) (y : mtask) : Prop :=
  xpc y /\
  (m_final y = None -> cancelled y -> m_dead y = true \/ taint_iter s = true) /\
  (m_final y = None -> m_dead y = true -> cancelled y) /\
  (closed s = true -> m_final y = None -> m_dead y = true /\ m_pc y <> MAtIter).

Definition XS (s : state) : Prop := forall m y, get_m s m = Some y -> xs_ok s y.

Lemma XS_of_Extra s : Extra_IR s -> XS s.
Proof.
  intros HX m y Hy. split; [|split; [|split]].
  - apply (X_pc HX Hy).
  - apply (X_canc HX Hy).
  - apply (X_dead HX Hy).
  - intros Hc. apply (X_closed HX Hc Hy).
Qed.

Definition xfile (s : state) : Prop :=
  forall g ms m, In (g, ms) (gmeta s) -> In m ms -> exists y, get_m s m = Some y /\ m_group y = g.

Definition xgac_ok (x : dtask) : Prop :=
  forall re, d_kind x = DGatherClose re -> d_pc x = DWaitG1 ->
    (d_fw x = Some FPending \/ d_fw x = Some FOk) /\ (forall g, d_g1 x = Some g -> g_re g = true).

Definition xgac (s : state) : Prop := forall d x, get_d s d = Some x -> xgac_ok x.

Lemma Extra_of_parts s : XS s -> xfile s -> xgac s -> Extra_IR s.
Proof.
  intros H1 H2 H3. constructor.
  - intros m y Hy. apply (H1 _ _ Hy).
  - intros m y Hy. apply (H1 _ _ Hy).
  - intros m y Hy. apply (H1 _ _ Hy).
  - intros Hc m y Hy. destruct (H1 _ _ Hy) as [_ [_ [_ H]]]. auto.
  - exact H2.
  - intros d x re Hd Hk Hp. apply (H3 _ _ Hd _ Hk Hp).
Qed.

Lemma Extra_parts s : Extra_IR s -> XS s /\ xfile s /\ xgac s.
Proof.
  intros HX. split; [apply XS_of_Extra; auto|split].
  - exact (X_file HX).
  - intros d x Hd re Hk Hp. apply (X_gac HX Hd Hk Hp).
Qed.

Definition qsim (y y' : mtask) : Prop :=
  mimm y y' /\ m_pc y' = m_pc y /\ m_idx y' = m_idx y /\ m_holds y' = m_holds y /\
  m_final y' = m_final y /\ m_dead y' = m_dead y /\ (cancelled y' <-> cancelled y).

Lemma qsim_refl y : qsim y y.
Proof. unfold qsim. pose proof (mimm_refl y). tauto. Qed.

Lemma qsim_trans x y z : qsim x y -> qsim y z -> qsim x z.
Proof.
  unfold qsim. intros [A1 [A2 [A3 [A4 [A5 [A6 A7]]]]]] [B1 [B2 [B3 [B4 [B5 [B6 B7]]]]]].
  split; [eapply mimm_trans; eauto|]. repeat split; try congruence; try tauto.
Qed.

Lemma can_start_qsim y y' : mimm y y' -> m_idx y' = m_idx y -> can_start y -> can_start y'.
Proof.
  intros [M1 [_ [M3 [M4 [M5 _]]]]] I. unfold can_start. rewrite M1, M3, M4, M5, I. auto.
Qed.

Lemma xs_ok_qsim s s' y y' :
  qsim y y' -> (taint_iter s = true -> taint_iter s' = true) -> closed s' = closed s ->
  xs_ok s y -> xs_ok s' y'.
Proof.
  intros [Hi [Hpc [Hidx [Hh [Hf [Hd Hc]]]]]] Ht Hcl [[P1 [P2 P3]] [Q1 [Q2 Q3]]].
  pose proof (is_map_imm Hi) as Him.
  unfold xs_ok, xpc. rewrite Hpc, Hf, Hd, Hh, Him, Hcl.
  split; [split; [|split]|split; [|split]]; auto.
  - intros E. destruct (P2 E). split; auto. eapply can_start_qsim; eauto.
  - intros E. destruct (P3 E). split; auto. eapply can_start_qsim; eauto.
  - intros A B. apply Hc in B. destruct (Q1 A B); auto.
  - intros A B. apply Hc. auto.
Qed.

Lemma XS_F2 s s' :
  Forall2 qsim (mtasks s) (mtasks s') -> (taint_iter s = true -> taint_iter s' = true) ->
  closed s' = closed s -> XS s -> XS s'.
Proof.
  intros HF Ht Hc H m y' Hy'. unfold get_m in Hy'.
  destruct (Forall2_nth_r HF Hy') as [y [Hy Q]].
  eapply xs_ok_qsim; eauto.
Qed.

Record PQ (s s' : state) : Prop := {
  pq_m : Forall2 qsim (mtasks s) (mtasks s');
  pq_gm : gmeta s' = gmeta s;
  pq_d : dtasks s' = dtasks s;
  pq_c : closed s' = closed s;
  pq_t : taint_iter s = true -> taint_iter s' = true
}.

Lemma PQ_refl s : PQ s s.
Proof. constructor; auto. apply Forall2_refl. apply qsim_refl. Qed.

Lemma PQ_trans s1 s2 s3 : PQ s1 s2 -> PQ s2 s3 -> PQ s1 s3.
Proof.
  intros [] []. constructor; try congruence; auto.
  eapply Forall2_trans; eauto using qsim_trans.
Qed.

Lemma PQ_core s s1 s2 :
  PQ s s1 -> mtasks s2 = mtasks s1 -> gmeta s2 = gmeta s1 -> dtasks s2 = dtasks s1 ->
  closed s2 = closed s1 -> taint_iter s2 = taint_iter s1 -> PQ s s2.
Proof. intros [] A B C D E. constructor; try congruence; rewrite ?A, ?E; auto. Qed.

Lemma PQ_taint s s1 : PQ s s1 -> PQ s (set_taint_iter s1 true).
Proof. intros []. constructor; auto. Qed.

Lemma qsim_fw_ok x : fut_pending (m_fw x) = true -> qsim x (set_m_fw x (Some FOk)).
Proof.
  intros H. unfold qsim, mimm, cancelled. cbn. repeat split; auto; try tauto.
  - intros [A|A]; auto. discriminate.
  - intros [A|A]; auto. rewrite A in H. discriminate.
Qed.

Lemma PQ_wake_next s s1 : PQ s s1 -> PQ s (wake_next s1).
Proof.
  intros H. eapply PQ_trans; [exact H|]. clear H. unfold wake_next.
  destruct (first_pending s1 (sem_waiters s1)) as [m|] eqn:Hf; [|apply PQ_refl].
  destruct (get_m s1 m) as [x|] eqn:Hx; [|apply PQ_refl].
  apply first_pending_In in Hf. destruct Hf as [_ Hp].
  unfold m_fw_of in Hp. rewrite Hx in Hp.
  constructor; autorewrite with fr; cbn; auto.
  apply Forall2_upd_self; [apply qsim_refl|]. unfold get_m in Hx. intros z Hz.
  replace z with x by congruence. apply qsim_fw_ok; auto.
Qed.

Lemma PQ_sem_release s s1 : PQ s s1 -> PQ s (sem_release s1).
Proof.
  intros H. unfold sem_release. apply PQ_wake_next.
  eapply PQ_core; [exact H|reflexivity ..].
Qed.

Lemma qsim_mrel y : qsim y (mrel y).
Proof.
  unfold mrel. destruct (m_pc y) eqn:E; try (unfold qsim, mimm, cancelled; cbn; tauto).
  destruct (m_fw y) as [[]|] eqn:F; try (unfold qsim, mimm, cancelled; cbn; tauto).
  apply qsim_fw_ok. rewrite F. auto.
Qed.

Lemma PQ_map_release s s1 m : PQ s s1 -> PQ s (map_release s1 m).
Proof.
  intros H. eapply PQ_trans; [exact H|]. clear H.
  assert (E : gmeta (map_release s1 m) = gmeta s1 /\ dtasks (map_release s1 m) = dtasks s1).
  { unfold map_release, put_m. destruct (get_m s1 m) as [y|]; auto.
    destruct (m_pc y); auto. destruct (m_fw y) as [[]|]; autorewrite with fr; auto. }
  destruct E as [E1 E2].
  constructor; autorewrite with fr; auto.
  rewrite map_release_mtasks. destruct (get_m s1 m) as [y|] eqn:Hy.
  - apply Forall2_upd_self; [apply qsim_refl|]. unfold get_m in Hy. intros z Hz.
    replace z with y by congruence. apply qsim_mrel.
  - apply Forall2_refl. apply qsim_refl.
Qed.
