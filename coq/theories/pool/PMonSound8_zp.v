(** Monitor soundness, C08 — model side, user exceptions: a pool task holds a user exception
    (or the instruction to raise one, [p_fin = FinRaise]) only if one of the observable origins of
    user exceptions has occurred: an [OpFinish _ FinRaise] request, a worker that raises at once
    being started, or a callback reported as raising ([EvCbEnd _ _ true]).  [N] stands for "the
    tracker has noted a user exception". *)
From TP Require Import PInv PInv_P_base PInv_P_view PInv_P_inv PInv_P_tok PInv_P_tok2
  PInv_P_chain PInv_P_step PInv_P PSpecStep PInv_R_base PInv_R_tr
  PStep_C_ev PStep_D_k PInv_Q_drv.

Definition is_rcb (e : event) : bool := match e with EvCbEnd _ _ true => true | _ => false end.
Definition has_rcb (es : list event) : bool := existsb is_rcb es.

Definition xok (N : Prop) (x : ptask) : Prop :=
  (p_fin x = FinRaise -> N) /\ (forall u st, p_exc x = Some (EUser u st) -> N).

Definition ZP (N : Prop) (s : state) : Prop := forall t x, get_p s t = Some x -> xok N x.

Definition RC (N : Prop) (s : state) : Prop := has_rcb (evs s) = true -> N.

Definition Z (N : Prop) (s : state) : Prop := RC N s -> ZP N s.

Lemma xok_same N x x' : p_fin x' = p_fin x -> p_exc x' = p_exc x -> xok N x -> xok N x'.
Proof. unfold xok. intros -> ->. auto. Qed.

Lemma xok_N (N : Prop) x : N -> xok N x.
Proof. intros H. split; auto. Qed.

Lemma ZP_eq N s s' : ptasks s' = ptasks s -> ZP N s -> ZP N s'.
Proof. intros E H t x G. unfold get_p in G. rewrite E in G. exact (H t x G). Qed.

Lemma Z_eq N s s' : ptasks s' = ptasks s -> evs s' = evs s -> Z N s -> Z N s'.
Proof. intros E1 E2 H Hr. eapply ZP_eq; eauto. apply H. unfold RC in *. rewrite <- E2. exact Hr. Qed.

Lemma has_rcb_app a b : has_rcb (a ++ b) = has_rcb a || has_rcb b.
Proof. apply existsb_app. Qed.

Lemma RC_emit N s e : RC N (emit s e) -> RC N s.
Proof.
  unfold RC, emit. cbn [evs set_evs]. rewrite has_rcb_app. intros H H1. apply H. rewrite H1. reflexivity.
Qed.

Lemma RC_emit_rcb N s kd t : RC N (emit s (EvCbEnd kd t true)) -> N.
Proof.
  unfold RC, emit. cbn [evs set_evs]. rewrite has_rcb_app. intros H. apply H. apply orb_true_r.
Qed.

Lemma Z_emit N s e : Z N s -> Z N (emit s e).
Proof. intros H Hr. eapply ZP_eq; [|apply H; eapply RC_emit; eauto]. reflexivity. Qed.

Lemma Z_put_p N s t x : Z N s -> (RC N s -> xok N x) -> Z N (put_p s t x).
Proof.
  intros H Hx Hr u y G. unfold get_p, put_p in G. cbn [ptasks set_ptasks] in G.
  rewrite nth_error_upd in G. destruct (Nat.eqb t u).
  - destruct (Nat.ltb t (length (ptasks s))); [|discriminate]. injection G as <-. apply Hx. exact Hr.
  - exact (H Hr u y G).
Qed.

Lemma Z_set_ctl N s c : Z N s -> Z N (set_ctl s c).
Proof. apply Z_eq; reflexivity. Qed.
Lemma Z_sched N s h : Z N s -> Z N (sched s h).
Proof. apply Z_eq; [apply ptasks_sched|apply ev_sched]. Qed.
Lemma Z_sched_cbs N s r : Z N s -> Z N (sched_cbs s r).
Proof. apply Z_eq; [apply ptasks_sched_cbs|apply ev_sched_cbs]. Qed.
Lemma Z_sem_release N s : Z N s -> Z N (sem_release s).
Proof. apply Z_eq; [apply ptasks_sem_release|apply ev_sem_release]. Qed.
Lemma Z_map_release N s m : Z N s -> Z N (map_release s m).
Proof. apply Z_eq; [apply ptasks_map_release|apply ev_map_release]. Qed.

Lemma Z_finish_p N s t x : Z N s -> (RC N s -> xok N x) -> Z N (finish_p s t x).
Proof.
  intros H Hx. unfold finish_p. cbv zeta. apply Z_set_ctl, Z_sched_cbs, Z_put_p; auto;
  try (intros Hr; eapply xok_same; [..|exact (Hx Hr)]; reflexivity).
Qed.

Lemma Z_suspend_p N s t x pc : Z N s -> (RC N s -> xok N x) -> Z N (suspend_p s t x pc).
Proof.
  intros H Hx. unfold suspend_p. destruct (p_mc x).
  - apply Z_set_ctl, Z_sched, Z_put_p; auto;
    try (intros Hr; eapply xok_same; [..|exact (Hx Hr)]; reflexivity).
  - apply Z_set_ctl, Z_put_p; auto;
    try (intros Hr; eapply xok_same; [..|exact (Hx Hr)]; reflexivity).
Qed.

Lemma Z_moved N s1 t x :
  Z N s1 -> (RC N s1 -> xok N x) ->
  let s3 := sem_release s1 in
  let x' := set_p_nrel x (S (p_nrel x)) in
  let s4 := if p_ismap x' then map_release s3 (p_req x') else s3 in
  Z N (match p_ecb x' with
       | CbNone => finish_p s4 t x'
       | _ =>
           set_ctl (emit (put_p s4 t (set_p_pc (set_p_necb x' (S (p_necb x'))) PUEndCb))
                         (EvCbBegin KEnd t (classify s4 t)))
                   (CUser (TP t))
       end).
Proof.
  intros H Hx s3 x' s4.
  assert (E4 : evs s4 = evs s1).
  { unfold s4, s3. destruct (p_ismap x'); rewrite ?ev_map_release, ?ev_sem_release; reflexivity. }
  assert (H4 : Z N s4).
  { unfold s4. destruct (p_ismap x'); [apply Z_map_release|]; apply Z_sem_release; exact H. }
  assert (Hx4 : RC N s4 -> xok N x').
  { intros Hr. unfold RC in Hr. rewrite E4 in Hr. eapply xok_same; [..|exact (Hx Hr)]; reflexivity. }
  clearbody s4.
  assert (B : Z N (put_p s4 t (set_p_pc (set_p_necb x' (S (p_necb x'))) PUEndCb))).
  { apply Z_put_p; auto; try (intros Hr; eapply xok_same; [..|exact (Hx4 Hr)]; reflexivity). }
  destruct (p_ecb x'); [apply Z_finish_p; auto|apply Z_set_ctl, Z_emit, B|apply Z_set_ctl, Z_emit, B].
Qed.

Lemma xok_internal N x e :
  (forall u st, e <> EUser u st) -> xok N x -> xok N (set_p_exc x (Some e)).
Proof.
  intros He [H1 H2]. split; [exact H1|]. cbn [p_exc set_p_exc]. intros u st E.
  injection E as E. exfalso. eapply He; eauto.
Qed.

Lemma Z_enter_end N s t x : Z N s -> (RC N s -> xok N x) -> Z N (enter_end s t x).
Proof.
  intros H Hx. unfold enter_end.
  destruct (mem t (t_running s)); [|destruct (mem t (t_cancelled s))].
  - apply (Z_moved N (set_t_ended (set_t_running s (remove1 t (t_running s)))
                        (dict_add (t_ended (set_t_running s (remove1 t (t_running s)))) t)) t x).
    + eapply Z_eq; [| |exact H]; reflexivity.
    + exact Hx.
  - apply (Z_moved N (set_t_ended (set_t_cancelled s (remove1 t (t_cancelled s)))
                        (dict_add (t_ended (set_t_cancelled s (remove1 t (t_cancelled s)))) t)) t x).
    + eapply Z_eq; [| |exact H]; reflexivity.
    + exact Hx.
  - apply Z_finish_p; auto; try (intros Hr; apply xok_internal; [discriminate|auto]).
Qed.

Lemma Z_enter_cancel N s t x : Z N s -> (RC N s -> xok N x) -> Z N (enter_cancel s t x).
Proof.
  intros H Hx. unfold enter_cancel. cbv zeta.
  set (s1 := set_t_cancelled (set_t_running s (remove1 t (t_running s))) (dict_add (t_cancelled s) t)).
  assert (H1 : Z N s1) by (eapply Z_eq; [| |exact H]; reflexivity).
  assert (Hx1 : RC N s1 -> xok N x) by exact Hx.
  assert (B : Z N (put_p s1 t (set_p_pc (set_p_nccb x (S (p_nccb x))) PUCancelCb))).
  { apply Z_put_p; auto; try (intros Hr; eapply xok_same; [..|exact (Hx1 Hr)]; reflexivity). }
  destruct (mem t (t_running s)).
  - destruct (p_ccb x); [apply Z_enter_end; auto|apply Z_set_ctl, Z_emit, B|apply Z_set_ctl, Z_emit, B].
  - apply Z_enter_end; auto; try (intros Hr; apply xok_internal; [discriminate|auto]).
Qed.

Lemma xok_cb_raise N s x kd t r st :
  (RC N s -> xok N x) -> RC N (emit s (EvCbEnd kd t r)) -> xok N (cb_raise x r st t).
Proof.
  intros Hx Hr. destruct r.
  - apply xok_N. eapply RC_emit_rcb; eauto.
  - apply Hx. eapply RC_emit; eauto.
Qed.

Lemma Z_continue_p N s t :
  Z N s ->
  (forall x, get_p s t = Some x -> p_pc x = PUStart -> w_first (p_w x) = WRaise -> N) ->
  Z N (continue_p s t).
Proof.
  intros H HS. unfold continue_p. destruct (get_p s t) as [x|] eqn:G; eauto.
  assert (Hx : RC N s -> xok N x) by (intros Hr; exact (H Hr t x G)).
  assert (He : forall e, Z N (emit s e)) by (intros e; apply Z_emit; exact H).
  assert (Hxe : forall e, RC N (emit s e) -> xok N x) by (intros e Hr; apply Hx; eapply RC_emit; eauto).
  destruct (p_pc x) eqn:Epc; eauto.
  - destruct (w_first (p_w x)) eqn:Ew.
    + apply Z_suspend_p; eauto.
    + apply Z_enter_end; eauto.
    + apply Z_enter_end; eauto. intros _. apply xok_N. apply (HS x); eauto.
  - destruct (p_fin x) eqn:Ef.
    + apply Z_enter_end; eauto.
    + apply Z_enter_end; eauto; try (intros Hr; apply xok_N; apply (Hxe _ Hr); exact Ef).
  - destruct (w_cancel (p_w x)); [apply Z_enter_cancel|apply Z_enter_end]; eauto.
  - destruct (p_ccb x) as [|r|sl r].
    + apply Z_enter_end; eauto.
    + apply Z_enter_end; eauto; try (intros Hr; eapply xok_cb_raise; eauto).
    + destruct sl; [apply Z_suspend_p; eauto|].
      apply Z_enter_end; eauto; try (intros Hr; eapply xok_cb_raise; eauto).
  - destruct (p_ecb x) as [|r|sl r].
    + apply Z_finish_p; eauto.
    + apply Z_finish_p; eauto; try (intros Hr; eapply xok_cb_raise; eauto).
    + destruct sl; [apply Z_suspend_p; eauto|].
      apply Z_finish_p; eauto; try (intros Hr; eapply xok_cb_raise; eauto).
Qed.

Lemma Z_run_p N s t : Z N s -> Z N (run_p s t).
Proof.
  intros H. unfold run_p. destruct (get_p s t) as [x0|] eqn:G; eauto. cbv zeta.
  set (x := set_p_mc (set_p_fw x0 None) false).
  assert (Hx : RC N s -> xok N x).
  { intros Hr. eapply xok_same; [..|exact (H Hr t x0 G)]; reflexivity. }
  assert (He : forall e, Z N (emit s e)) by (intros e; apply Z_emit; exact H).
  assert (Hxe : forall e, RC N (emit s e) -> xok N x) by (intros e Hr; apply Hx; eapply RC_emit; eauto).
  assert (Hcan : forall s1, (RC N s1 -> xok N x) -> RC N s1 -> xok N (set_p_exc x (Some ECancelled))).
  { intros s1 H1 Hr. apply xok_internal; [discriminate|auto]. }
  destruct (p_pc x0); eauto.
  - destruct (task_input (p_mc x0) (p_fw x0)).
    + destruct (p_unst x).
      * apply Z_set_ctl, Z_emit, Z_put_p; eauto;
        try (intros Hr; eapply xok_same; [..|exact (Hx Hr)]; reflexivity).
      * apply Z_set_ctl, Z_emit, Z_put_p; eauto;
        try (intros Hr; eapply xok_same; [..|exact (Hx Hr)]; reflexivity).
      * apply Z_enter_cancel; eauto;
        try (intros Hr; eapply xok_same; [..|exact (Hx Hr)]; reflexivity).
    + apply Z_finish_p; eauto; try (apply (Hcan s); eauto).
    + apply Z_finish_p; eauto; try (apply (Hcan s); eauto).
  - destruct (task_input (p_mc x0) (p_fw x0)).
    + apply Z_set_ctl, Z_put_p; eauto;
      try (intros Hr; eapply xok_same; [..|exact (Hx Hr)]; reflexivity).
    + apply Z_set_ctl, Z_emit, Z_put_p; eauto;
      try (intros Hr; eapply xok_same; [..|exact (Hx Hr)]; reflexivity).
    + apply Z_set_ctl, Z_emit, Z_put_p; eauto;
      try (intros Hr; eapply xok_same; [..|exact (Hx Hr)]; reflexivity).
  - destruct (task_input (p_mc x0) (p_fw x0)).
    + apply Z_enter_end; eauto; try (intros Hr; eapply xok_cb_raise; eauto).
    + apply Z_enter_end; eauto; try (apply (Hcan (emit s _)); eauto).
    + apply Z_enter_end; eauto; try (apply (Hcan (emit s _)); eauto).
  - destruct (task_input (p_mc x0) (p_fw x0)).
    + apply Z_finish_p; eauto; try (intros Hr; eapply xok_cb_raise; eauto).
    + apply Z_finish_p; eauto; try (apply (Hcan (emit s _)); eauto).
    + apply Z_finish_p; eauto; try (apply (Hcan (emit s _)); eauto).
Qed.


(** ** spawners, drivers, operations: [ZP] alone *)
Lemma nth_error_snoc_inv8 {A} (l : list A) x n y :
  nth_error (l ++ [x]) n = Some y -> nth_error l n = Some y \/ (n = length l /\ y = x).
Proof.
  intros H. destruct (Nat.lt_ge_cases n (length l)) as [L|L].
  - rewrite nth_error_app1 in H; auto.
  - rewrite nth_error_app2 in H; auto. right.
    destruct (n - length l) as [|k] eqn:E; simpl in H.
    + inversion H. split; auto. lia.
    + destruct k; discriminate.
Qed.

Lemma ZP_Qpv N : Qpv (ZP N).
Proof. intros s s' E. apply ZP_eq. change (vpts (pview s') = vpts (pview s)). now rewrite E. Qed.

Lemma ZP_Qreg N : Qreg (ZP N).
Proof.
  intros s m x H t y G.
  assert (E : ptasks (register s m x) = ptasks s ++ [new_pt m x]).
  { change (vpts (pview (register s m x)) = vpts (pview s) ++ [new_pt m x]). rewrite pv_register.
    reflexivity. }
  unfold get_p in G. rewrite E in G. apply nth_error_snoc_inv8 in G.
  destruct G as [G|[_ ->]]; [exact (H t y G)|].
  split; [discriminate|discriminate].
Qed.

Lemma ZP_put_p N s t x : ZP N s -> xok N x -> ZP N (put_p s t x).
Proof.
  intros H Hx u y G. unfold get_p, put_p in G. cbn [ptasks set_ptasks] in G.
  rewrite nth_error_upd in G. destruct (Nat.eqb t u).
  - destruct (Nat.ltb t (length (ptasks s))); [|discriminate]. injection G as <-. exact Hx.
  - exact (H u y G).
Qed.

Lemma ZP_cancel_p N s t : ZP N s -> ZP N (cancel_p s t).
Proof.
  intros H. unfold cancel_p. destruct (get_p s t) as [x|] eqn:G; auto.
  pose proof (H t x G) as Hx.
  assert (P : forall s1 x', ptasks s1 = ptasks s -> p_fin x' = p_fin x -> p_exc x' = p_exc x ->
                            ZP N (put_p s1 t x')).
  { intros s1 x' E1 E2 E3. apply ZP_put_p; [eapply ZP_eq; eauto|eapply xok_same; eauto]. }
  destruct (p_unst x); [| |apply P; reflexivity].
  - destruct (p_final x); auto.
    destruct (fut_pending (p_fw x)).
    + eapply ZP_eq; [apply ptasks_sched|]. apply P; try reflexivity.
      destruct (is_current s (TP t) && final_segment x); reflexivity.
    + apply P; try reflexivity. destruct (is_current s (TP t) && final_segment x); reflexivity.
  - apply P; reflexivity.
Qed.

Lemma ZP_do_cancel N s ids : ZP N s -> ZP N (do_cancel s ids).
Proof.
  intros H. unfold do_cancel. destruct (first_lookup_err s ids).
  - eapply ZP_eq; [|exact H]. reflexivity.
  - apply fold_inv; auto. intros s0 a. apply ZP_cancel_p.
Qed.

Lemma ZP_cancel_group_body N s g ids : ZP N s -> ZP N (cancel_group_body s g ids).
Proof.
  intros H. unfold cancel_group_body. apply fold_inv.
  - intros s0 t H0. destruct (mem t (t_running s0)); auto. now apply ZP_cancel_p.
  - eapply ZP_Qpv; [|exact H]. rewrite pv_mark_dead. apply pv_cancel_group_metas.
Qed.

Lemma ZP_cancel_all_groups N gs : forall s, ZP N s -> ZP N (cancel_all_groups s gs).
Proof.
  induction gs as [|[g ids] r IH]; simpl; intros s H; auto.
  apply IH. now apply ZP_cancel_group_body.
Qed.

Lemma ZP_stop_res N s ids :
  ZP N s -> ZP N (match res s with RErr _ => s | _ => set_res s (RIds ids) end).
Proof. intros H. destruct (res s); auto; (eapply ZP_eq; [|exact H]; reflexivity). Qed.

Lemma ZP_do_op N s o :
  ZP N s -> (forall t, o = OpFinish t FinRaise -> N) -> ZP N (do_op s o).
Proof.
  intros H HF.
  destruct (op_other o) eqn:Eo.
  { destruct (op_driver o) eqn:Ed.
    - destruct o; try discriminate; unfold do_op.
      + eapply ZP_eq; [|exact H]. destruct (Nat.ltb 0 (n_gac s)); reflexivity.
      + eapply ZP_eq; [|exact H]. rewrite ptasks_sched. destruct k; reflexivity.
    - eapply ZP_Qpv; [apply pv_do_op_other; auto|auto]. }
  destruct o; try discriminate; unfold do_op.
  - now apply ZP_do_cancel.
  - assert (Hk : ZP N (know s g)) by (eapply ZP_Qpv; eauto using pv_know).
    destruct (glookup g (groups (know s g))).
    + apply ZP_cancel_group_body. eapply ZP_eq; [|exact Hk]; reflexivity.
    + eapply ZP_eq; [|apply Hk]. reflexivity.
  - apply ZP_cancel_all_groups. eapply ZP_eq; [|exact H]; reflexivity.
  - apply ZP_stop_res. now apply ZP_do_cancel.
  - apply ZP_stop_res. now apply ZP_do_cancel.
  - destruct (get_p s tid) as [x|] eqn:Ex; auto.
    eapply ZP_eq; [apply ptasks_sched|]. apply ZP_put_p; auto.
    destruct (H tid x Ex) as [H1 H2]. split; [|exact H2].
    cbn [p_fin set_p_fin]. intros ->. apply (HF tid). reflexivity.
  - destruct (get_p s tid) as [x|] eqn:Ex; auto.
    eapply ZP_eq; [apply ptasks_sched|]. apply ZP_put_p; auto.
    eapply xok_same; [..|exact (H tid x Ex)]; reflexivity.
Qed.

(** ** every step *)
Theorem ZP_step N s l :
  ZP N s ->
  (forall t x, ctl s = CUser (TP t) -> get_p s t = Some x -> p_pc x = PUStart ->
               w_first (p_w x) = WRaise -> N) ->
  (forall t, l = LOp (OpFinish t FinRaise) -> enabled (pre s) l = true -> N) ->
  (has_rcb (evs (step s l)) = true -> N) ->
  ZP N (step s l).
Proof.
  intros H HS HF HR. unfold step in *. fold (pre s) in *.
  assert (H0 : ZP N (pre s)) by (eapply ZP_eq; [|exact H]; reflexivity).
  destruct (negb (enabled (pre s) l)) eqn:En; [exact H0|].
  apply negb_false_iff in En.
  destruct l as [h| |o].
  - assert (HU : ZP N (unsched (pre s) h)) by (eapply ZP_eq; [|exact H0]; reflexivity).
    destruct h as [[t|m|d]|d c]; cbn [run_handle] in *.
    + apply (Z_run_p N (unsched (pre s) (HT (TP t))) t); [intros _; exact HU|exact HR].
    + apply (Q_run_m (ZP N) (ZP_Qpv N) (ZP_Qreg N)); exact HU.
    + eapply ZP_eq; [apply run_d_ptasks|exact HU].
    + eapply ZP_eq; [apply run_g_ptasks|exact HU].
  - change (ctl (pre s)) with (ctl s) in *. destruct (ctl s) as [|[t|m|d]] eqn:Ec; auto.
    + apply (Z_continue_p N (pre s) t); [intros _; exact H0| |exact HR].
      intros x G. apply (HS t x); auto.
    + apply (Q_continue_m (ZP N) (ZP_Qpv N) (ZP_Qreg N)); exact H0.
  - apply ZP_do_op; [exact H0|]. intros t ->. apply (HF t); auto.
Qed.
