(** Monitor soundness for C02 / C03 — definitions: the abstract view of the tracker, the effect
    of events on it, the checks made at events, and the per-task invariant relating the view to
    the task records. *)
From TP Require Import PMon PInv_R_base.

(** ** Immutable part of a request *)
Record rimm := { i_kind : mkind; i_els : list elem; i_w : wspec; i_ecb : cbspec; i_ccb : cbspec }.

Definition imm_req (x : req) : rimm :=
  {| i_kind := r_kind x; i_els := r_els x; i_w := r_w x; i_ecb := r_ecb x; i_ccb := r_ccb x |}.

Definition imm_m (y : mtask) : rimm :=
  {| i_kind := m_kind y; i_els := m_els y; i_w := m_w y; i_ecb := m_ecb y; i_ccb := m_ccb y |}.

Definition i_wof (ri : rimm) (el : nat) : wspec :=
  match i_kind ri with
  | MMap _ => match nth_error (i_els ri) el with Some e => e_w e | None => i_w ri end
  | _ => i_w ri
  end.

Definition i_prop (ri : rimm) (el : nat) : bool :=
  match w_cancel (i_wof ri el) with WPropagate => true | WSwallow => false end.

(** ** Status of a task, as far as the monitor is concerned *)
Inductive phase := PhNew | PhLive | PhUC | PhCan | PhEnd | PhOut | PhMid.

Definition ph_of (p : ppc) : phase :=
  match p with
  | PCreated => PhNew
  | PUStart | PWaitGate | PUResume => PhLive
  | PUCancelled => PhUC
  | PUCancelCb | PWaitCcb => PhCan
  | PUEndCb | PWaitEcb => PhEnd
  | PDone => PhOut
  end.

(** [s_cd], [s_cn], [s_nc], [s_def] are flags carrying information: the cancel callback has
    completed / the task is (not) listed as having observed CancelledError / the task is the
    target of an accepted cancellation. *)
Record status := {
  s_ph : phase; s_ns : nat; s_ncc : nat; s_nec : nat;
  s_cd : bool; s_cn : bool; s_nc : bool; s_def : bool;
  s_req : nat; s_el : nat; s_w : wspec; s_ecb : cbspec; s_ccb : cbspec }.

Definition is_def (u : unstarted) : bool := match u with UDeferred => true | _ => false end.

Definition st_of (x : ptask) : status :=
  {| s_ph := ph_of (p_pc x); s_ns := p_nstart x; s_ncc := p_nccb x; s_nec := p_necb x;
     s_cd := false; s_cn := false; s_nc := false; s_def := is_def (p_unst x);
     s_req := p_req x; s_el := p_el x; s_w := p_w x; s_ecb := p_ecb x; s_ccb := p_ccb x |}.

Definition upd_st (g : status) (ph : phase) (ns ncc nec : nat) (cd cn nc : bool) : status :=
  {| s_ph := ph; s_ns := ns; s_ncc := ncc; s_nec := nec; s_cd := cd; s_cn := cn; s_nc := nc;
     s_def := s_def g;
     s_req := s_req g; s_el := s_el g; s_w := s_w g; s_ecb := s_ecb g; s_ccb := s_ccb g |}.

Definition set_ph (g : status) (ph : phase) : status :=
  upd_st g ph (s_ns g) (s_ncc g) (s_nec g) (s_cd g) (s_cn g) (s_nc g).

Definition matches (RI : list rimm) (g : status) : Prop :=
  exists ri, nth_error RI (s_req g) = Some ri /\ i_ecb ri = s_ecb g /\ i_ccb ri = s_ccb g /\
             i_wof ri (s_el g) = s_w g.

(** ** The abstract view *)
Record aview := {
  a_live : list nat; a_task : list (nat * (nat * nat)); a_exited : list nat;
  a_cancelled : list nat; a_cbs : list (nat * cbkind); a_ccb : list nat; a_ccd : list nat;
  a_ecb : list nat }.

Definition aview_of (k : trk) : aview :=
  {| a_live := k_live k; a_task := k_task k; a_exited := k_exited k;
     a_cancelled := k_cancelled k; a_cbs := k_cbs k; a_ccb := k_ccb k; a_ccd := k_ccd k;
     a_ecb := k_ecb k |}.

Definition avev (n : nat) (V : aview) (e : event) : aview :=
  match e with
  | EvStart t r el =>
      if Nat.ltb r n then
        {| a_live := t :: a_live V; a_task := (t, (r, el)) :: a_task V; a_exited := a_exited V;
           a_cancelled := a_cancelled V; a_cbs := a_cbs V; a_ccb := a_ccb V; a_ccd := a_ccd V;
           a_ecb := a_ecb V |}
      else V
  | EvCancelled t =>
      {| a_live := a_live V; a_task := a_task V; a_exited := a_exited V;
         a_cancelled := t :: a_cancelled V; a_cbs := a_cbs V; a_ccb := a_ccb V;
         a_ccd := a_ccd V; a_ecb := a_ecb V |}
  | EvExit t =>
      {| a_live := removeall t (a_live V); a_task := a_task V; a_exited := t :: a_exited V;
         a_cancelled := a_cancelled V; a_cbs := a_cbs V; a_ccb := a_ccb V; a_ccd := a_ccd V;
         a_ecb := a_ecb V |}
  | EvCbBegin KCancel t _ =>
      {| a_live := a_live V; a_task := a_task V; a_exited := a_exited V;
         a_cancelled := a_cancelled V; a_cbs := (t, KCancel) :: a_cbs V; a_ccb := t :: a_ccb V;
         a_ccd := a_ccd V; a_ecb := a_ecb V |}
  | EvCbBegin KEnd t _ =>
      {| a_live := a_live V; a_task := a_task V; a_exited := a_exited V;
         a_cancelled := a_cancelled V; a_cbs := (t, KEnd) :: a_cbs V; a_ccb := a_ccb V;
         a_ccd := a_ccd V; a_ecb := t :: a_ecb V |}
  | EvCbEnd kd t _ =>
      {| a_live := a_live V; a_task := a_task V; a_exited := a_exited V;
         a_cancelled := a_cancelled V; a_cbs := del_cb (a_cbs V) t kd; a_ccb := a_ccb V;
         a_ccd := match kd with KCancel => t :: a_ccd V | KEnd => a_ccd V end;
         a_ecb := a_ecb V |}
  | EvCbInterrupted kd t =>
      {| a_live := a_live V; a_task := a_task V; a_exited := a_exited V;
         a_cancelled := a_cancelled V; a_cbs := del_cb (a_cbs V) t kd; a_ccb := a_ccb V;
         a_ccd := a_ccd V; a_ecb := a_ecb V |}
  | _ => V
  end.

(** ** Checks made by the tracker at an event (property 2; property 3 except the class argument
    of EvCbBegin, which is handled separately) *)
Definition chk2 (V : aview) (e : event) : bool :=
  match e with
  | EvCbBegin KEnd t _ => negb (mem t (a_ecb V))
  | _ => true
  end.

Definition chk3 (RI : list rimm) (TG : list nat) (V : aview) (e : event) : bool :=
  match e with
  | EvCbBegin KCancel t _ =>
      negb (mem t (a_ccb V)) && negb (mem t (a_ecb V)) && negb (mem t (a_live V)) &&
      match assoc t (a_task V) with
      | Some (r, el) =>
          mem t (a_cancelled V) &&
          match nth_error RI r with Some ri => i_prop ri el | None => true end
      | None => mem t TG
      end
  | EvCbBegin KEnd t _ =>
      negb (mem t (a_ecb V)) && negb (has_cb (a_cbs V) t KCancel) && negb (mem t (a_live V)) &&
      implb (match assoc t (a_task V) with
             | Some (r, el) =>
                 match nth_error RI r with
                 | Some ri => mem t (a_cancelled V) && i_prop ri el
                              && negb (cb_is_none (i_ccb ri))
                 | None => false
                 end
             | None => false
             end) (mem t (a_ccd V))
  | EvCbInterrupted _ _ => false
  | _ => true
  end.

(** running the events: final view, and whether every check passed *)
Fixpoint avrun (RI : list rimm) (TG : list nat) (es : list event) (V : aview)
  : aview * bool * bool :=
  match es with
  | [] => (V, true, true)
  | e :: t =>
      let '(V', a, b) := avrun RI TG t (avev (length RI) V e) in
      (V', chk2 V e && a, chk3 RI TG V e && b)
  end.

Lemma avrun_snoc RI TG es e : forall V,
  avrun RI TG (es ++ [e]) V =
  let '(V1, a, b) := avrun RI TG es V in
  (avev (length RI) V1 e, a && chk2 V1 e, b && chk3 RI TG V1 e).
Proof.
  induction es as [|e0 es IH]; simpl; intros V.
  - rewrite !andb_true_r. reflexivity.
  - rewrite IH. destruct (avrun RI TG es (avev (length RI) V e0)) as [[V1 a] b].
    rewrite !andb_assoc. reflexivity.
Qed.

(** ** The per-task invariant *)
Definition live_ph (p : phase) : Prop := p = PhLive \/ p = PhUC.

Definition taskok (RI : list rimm) (TG : list nat) (V : aview) (u : nat) (o : option status)
  : Prop :=
  match o with
  | None =>
      ~ In u (a_live V) /\ assoc u (a_task V) = None /\ ~ In u (a_exited V) /\
      ~ In u (a_cancelled V) /\ (forall k, ~ In (u, k) (a_cbs V)) /\ ~ In u (a_ccb V) /\
      ~ In u (a_ecb V)
  | Some g =>
      (In u (a_live V) <-> live_ph (s_ph g)) /\
      (s_ns g = 0 -> assoc u (a_task V) = None) /\
      (s_ns g <> 0 -> assoc u (a_task V) = Some (s_req g, s_el g) /\ matches RI g) /\
      (In u (a_exited V) -> s_ns g <> 0 /\ ~ live_ph (s_ph g) /\ s_ph g <> PhNew) /\
      (In u (a_cancelled V) -> s_ph g <> PhNew /\ s_ph g <> PhLive) /\
      (s_ph g = PhUC -> In u (a_cancelled V)) /\
      (In (u, KCancel) (a_cbs V) <-> s_ph g = PhCan) /\
      (In (u, KEnd) (a_cbs V) <-> s_ph g = PhEnd) /\
      (In u (a_ccb V) -> s_ncc g <> 0) /\
      (In u (a_ecb V) <-> s_nec g <> 0) /\
      (s_cd g = true -> In u (a_ccd V)) /\
      (s_cn g = true -> In u (a_cancelled V)) /\
      (s_nc g = true -> ~ In u (a_cancelled V)) /\
      (s_def g = true -> In u TG)
  end.

Definition st_at (s : state) (ov : option (nat * status)) (u : nat) : option status :=
  match ov with
  | Some (a, g) => if Nat.eqb u a then Some g else option_map st_of (get_p s u)
  | None => option_map st_of (get_p s u)
  end.

Definition InvA (RI : list rimm) (TG : list nat) (V : aview) (s : state)
           (ov : option (nat * status)) : Prop :=
  NoDup (a_live V) /\
  (forall u, taskok RI TG V u (st_at s ov u)) /\
  (forall a g, ov = Some (a, g) -> a < length (ptasks s)).
