(** Extra invariant and step relations used by PInv_G. *)
From TP Require Export PInv_G_Base.

(** ** The extra invariant *)
Record Extra_G (s : state) : Prop := {
  X_dead : forall m x, get_m s m = Some x -> m_dead x = true -> m_final x = None ->
                       m_mc x = true \/ fut_cancelled (m_fw x);
  X_gac1 : forall d x re, get_d s d = Some x -> d_kind x = DGatherClose re -> d_pc x = DWaitG1 ->
             (d_fw x = Some FPending \/ d_fw x = Some FOk) /\
             forall g, d_g1 x = Some g -> g_re g = true;
  X_nouser : (closed s = true \/
              exists d x re, get_d s d = Some x /\ d_kind x = DGatherClose re /\ d_pc x = DWaitG2) ->
             forall m, ctl s <> CUser (TM m);
  X_closed : closed s = true ->
             forall m y, get_m s m = Some y -> m_final y = None -> m_dead y = true;
  X_hg : forall d c, In (HG d c) (ready s) ->
           exists x, get_d s d = Some x /\
             match c with
             | TM _ => exists g, d_g1 x = Some g /\ In c (g_children g)
             | TP _ => exists g, d_g2 x = Some g /\ In c (g_children g)
             | TD _ => False
             end;
  X_gath1 : forall d x g, get_d s d = Some x -> d_g1 x = Some g ->
              (forall c, In c (g_cb g) -> In c (g_children g)) /\
              (forall c, In c (g_children g) -> exists m, c = TM m);
  X_gath2 : forall d x g, get_d s d = Some x -> d_g2 x = Some g ->
              (forall c, In c (g_cb g) -> In c (g_children g)) /\
              (forall c, In c (g_children g) -> exists t, c = TP t);
  X_none1 : forall d x, get_d s d = Some x -> d_pc x = DNotStarted ->
              d_g1 x = None /\ d_g2 x = None;
  X_none2 : forall d x, get_d s d = Some x -> d_pc x = DWaitG1 -> d_g2 x = None;
  X_cwnd : NoDup (closed_waiters s);
  X_cw : forall d, In d (closed_waiters s) -> exists x, get_d s d = Some x /\ d_pc x = DWaitClosed
}.

(** ** Views *)
(** fields no pool-task / spawner step touches *)
Definition vS (s : state) :=
  (gmeta s, meta_cancelled s, taint_iter s, dtasks s, closed_waiters s, locked s, closed s, n_gac s).

Lemma vS_inv s s' : vS s' = vS s ->
  gmeta s' = gmeta s /\ meta_cancelled s' = meta_cancelled s /\ taint_iter s' = taint_iter s /\
  dtasks s' = dtasks s /\ closed_waiters s' = closed_waiters s /\ locked s' = locked s /\
  closed s' = closed s /\ n_gac s' = n_gac s.
Proof. unfold vS. intros H. inversion H. repeat split; auto. Qed.

(** gather view: finals only grow; a child callback handle appears exactly for a task that
    finished, for the drivers that have a callback registered on it *)
Record gvF (s s' : state) : Prop := {
  gv_d : dtasks s' = dtasks s;
  gv_mono : forall c, tref_done s c = true -> tref_done s' c = true;
  gv_hg : forall d c, In (HG d c) (ready s') <->
            In (HG d c) (ready s) \/
            (tref_done s c = false /\ tref_done s' c = true /\
             In (HG d c) (cbs_of (dtasks s) 0 c))
}.

Lemma gvF_refl s : gvF s s.
Proof.
  constructor; auto. intros d c. split; auto. intros [H|[H1 [H2 _]]]; auto. congruence.
Qed.

Lemma gvF_trans s1 s2 s3 : gvF s1 s2 -> gvF s2 s3 -> gvF s1 s3.
Proof.
  intros [Hd1 Hm1 Hg1] [Hd2 Hm2 Hg2]. constructor.
  - congruence.
  - auto.
  - intros d c. rewrite Hg2, Hg1, Hd1. split.
    + intros [[H|[Ha [Hb Hc]]]|[Ha [Hb Hc]]].
      * left; auto.
      * right. repeat split; auto.
      * right. repeat split; auto.
        destruct (tref_done s1 c) eqn:E; auto. apply Hm1 in E. congruence.
    + intros [H|[Ha [Hb Hc]]]; auto.
      destruct (tref_done s2 c) eqn:E.
      * left. right. auto.
      * right. auto.
Qed.

(** neutral: same tasks, same child-callback handles *)
Lemma gvF_neutral s s' :
  ptasks s' = ptasks s -> mtasks s' = mtasks s -> dtasks s' = dtasks s ->
  (forall d c, In (HG d c) (ready s') <-> In (HG d c) (ready s)) -> gvF s s'.
Proof.
  intros Hp Hm Hd Hr. constructor; auto.
  - intros c. rewrite (tref_done_eq s s' c); auto.
  - intros d c. rewrite Hr, (tref_done_eq s s' c); auto. split; auto.
    intros [H|[H1 [H2 _]]]; auto. congruence.
Qed.

Lemma gvF_neutral_done s s' :
  dtasks s' = dtasks s -> (forall c, tref_done s' c = tref_done s c) ->
  (forall d c, In (HG d c) (ready s') <-> In (HG d c) (ready s)) -> gvF s s'.
Proof.
  intros Hd Hc Hr. constructor; auto.
  - intros c. rewrite Hc; auto.
  - intros d c. rewrite Hr, Hc. split; auto.
    intros [H|[H1 [H2 _]]]; auto. congruence.
Qed.

(** registries only lose ids *)
Definition regs_sub (s s' : state) : Prop := forall t, In t (regs s') -> In t (regs s).

(** spawners: woken waiters *)
Definition mwk (x x' : mtask) : Prop :=
  m_pc x' = m_pc x /\ m_final x' = m_final x /\ m_dead x' = m_dead x /\ m_group x' = m_group x /\
  m_mc x' = m_mc x /\ m_holds x' = m_holds x /\
  (m_fw x' = m_fw x \/ (m_fw x = Some FPending /\ m_fw x' = Some FOk)).

Lemma mwk_refl x : mwk x x.
Proof. unfold mwk. repeat split; auto. Qed.

Lemma mwk_trans x y z : mwk x y -> mwk y z -> mwk x z.
Proof.
  unfold mwk. intros [A1 [A2 [A3 [A4 [A5 [A6 A7]]]]]] [B1 [B2 [B3 [B4 [B5 [B6 B7]]]]]].
  repeat split; try congruence.
  destruct A7 as [A7|[A7 A8]], B7 as [B7|[B7 B8]]; try (left; congruence); right; split; congruence.
Qed.

(** spawner evolution, [m] being the spawner that runs (its record is only constrained to keep
    its group and ghost [m_dead] and not to lose its outcome) *)
Definition mkeep (x x' : mtask) : Prop :=
  m_group x' = m_group x /\ m_dead x' = m_dead x /\ (m_final x <> None -> m_final x' = m_final x).

Record mev (m : option nat) (s s' : state) : Prop := {
  mev_len : length (mtasks s') = length (mtasks s);
  mev_get : forall k x, get_m s k = Some x ->
              exists x', get_m s' k = Some x' /\ mkeep x x' /\ (Some k <> m -> mwk x x')
}.

Lemma mkeep_refl x : mkeep x x.
Proof. unfold mkeep; auto. Qed.

Lemma mkeep_trans x y z : mkeep x y -> mkeep y z -> mkeep x z.
Proof.
  unfold mkeep. intros [A1 [A2 A3]] [B1 [B2 B3]]. repeat split; try congruence.
  intros H. pose proof (A3 H) as E. rewrite <- E. apply B3. congruence.
Qed.

Lemma mev_refl m s : mev m s s.
Proof.
  constructor; auto. intros k x H. exists x. split; auto. split; [apply mkeep_refl|].
  intros _. apply mwk_refl.
Qed.

Lemma mev_trans m s1 s2 s3 : mev m s1 s2 -> mev m s2 s3 -> mev m s1 s3.
Proof.
  intros [L1 G1] [L2 G2]. constructor; [congruence|].
  intros k x H. destruct (G1 k x H) as [y [Hy [K1 W1]]].
  destruct (G2 k y Hy) as [z [Hz [K2 W2]]]. exists z. split; auto. split.
  - eapply mkeep_trans; eauto.
  - intros Hne. eapply mwk_trans; eauto.
Qed.

Lemma mev_back m s s' k x' : mev m s s' -> get_m s' k = Some x' ->
  exists x, get_m s k = Some x /\ mkeep x x' /\ (Some k <> m -> mwk x x').
Proof.
  intros [L G] H. unfold get_m in *.
  destruct (nth_error (mtasks s) k) as [x|] eqn:E.
  - destruct (G k x E) as [y [Hy HH]]. exists x. split; auto. congruence.
  - apply nth_error_None in E. apply nth_error_lt in H. lia.
Qed.

Lemma mev_weaken s s' m : mev None s s' -> mev m s s'.
Proof.
  intros [L G]. constructor; auto. intros k x H. destruct (G k x H) as [y [Hy [K W]]].
  exists y. split; auto. split; auto. intros _. apply W. discriminate.
Qed.

(** same spawner table *)
Lemma mev_same m s s' : mtasks s' = mtasks s -> mev m s s'.
Proof.
  intros E. constructor; [congruence|]. intros k x H. exists x. unfold get_m in *.
  rewrite E. split; auto. split; [apply mkeep_refl|intros _; apply mwk_refl].
Qed.

(** ** Summary relation for pool-task and spawner steps *)
Record rel (m : option nat) (s s' : state) : Prop := {
  r_vs : vS s' = vS s;
  r_gv : gvF s s';
  r_m : mev m s s'
}.

Lemma rel_refl m s : rel m s s.
Proof. constructor; auto using gvF_refl, mev_refl. Qed.

Lemma rel_trans m s1 s2 s3 : rel m s1 s2 -> rel m s2 s3 -> rel m s1 s3.
Proof.
  intros [A1 A2 A3] [B1 B2 B3]. constructor.
  - congruence.
  - eapply gvF_trans; eauto.
  - eapply mev_trans; eauto.
Qed.

Lemma rel_weaken s s' m : rel None s s' -> rel m s s'.
Proof. intros [A B C]. constructor; auto using mev_weaken. Qed.

(** a step that leaves tasks, spawners and drivers alone, and child-callback handles *)
Lemma rel_neutral m s s' :
  vS s' = vS s -> ptasks s' = ptasks s -> mtasks s' = mtasks s ->
  (forall d c, In (HG d c) (ready s') <-> In (HG d c) (ready s)) -> rel m s s'.
Proof.
  intros Hv Hp Hm Hr. constructor; auto.
  - apply gvF_neutral; auto. apply vS_inv in Hv. tauto.
  - apply mev_same; auto.
Qed.
