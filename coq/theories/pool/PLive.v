(** EVENTUAL COMPLETION of the task-pool model under a cooperative environment.

    If user code lets every worker finish and every slow callback complete — and asks for nothing
    else — then from ANY state reached by a clean run the pool comes to rest, and at rest every
    accepted, uncancelled request is complete: no invocation is lost, however long it had to wait
    for room.

      - [live_bounded]: every cooperative run (labels [LRun _] / [LGo] / [LOp (OpFinish _ _)] /
        [LOp (OpReleaseCb _)], each enabled where it fires) from [s] has length at most [mu2 s];
      - [live_reaches_rest]: there is a cooperative run to a state at rest
        ([live_sched]: an explicit scheduler does it; [live_reaches_rest_any]: every cooperative
        run can be extended to one);
      - [live_maximal_rest]: EVERY cooperative run that cannot be extended ends at rest, with every
        pool task done — whatever order the loop picked ready handles in and whatever order the
        environment opened the gates in;
      - [C04_eventually_complete] / [C04_complete_every_maximal]: under the preconditions of
        [C04_complete_at_rest] (no [pool_size] assignment, no cancellation of a spawner from its
        own argument iterator, pool size not 0) the state reached satisfies the conclusions of
        [C04_nothing_stranded] and [C04_complete_at_rest]: every spawner finished, every task done,
        the whole capacity free, every request whose group was not cancelled made exactly one task
        per non-failing invocation / consumed its whole iterable.

    Preconditions.  (1) and (2) need only [clean] (P-unlock; it gives the invariant).  Pool size 0
    is NOT excluded from (1)/(2): such a pool comes to rest too ([at_rest] does not speak about
    spawners), it just never starts anything — [size0_rests_incomplete] shows that the size
    precondition of (3) is needed, [resize_rests_incomplete] that [taint_size = false] is (the
    known lost wake-up of the [pool_size] setter, D6).  No deadlock of the model was found: under
    [clean] a state where the cooperative environment can do nothing more is always at rest. *)
From TP Require Import PInv PSpec PRun PWF PProgress PExamples PRest PRest_nc.
From TP Require Export PLive_run.

Unset Implicit Arguments.

(** the conclusions of [C04_nothing_stranded] and [C04_complete_at_rest] *)
Definition complete_at (c : config) (s : state) : Prop :=
  (forall m y, get_m s m = Some y -> m_final y <> None) /\
  (forall t x, get_p s t = Some x -> p_pc x = PDone) /\
  sem_value s = cf_size c /\ sem_waiters s = [] /\
  (forall m y, get_m s m = Some y -> m_dead y = false ->
     match m_kind y with
     | MMap _ => m_idx y = length (m_els y) /\
                 tasks_of s m + count e_bad (m_els y) = length (m_els y)
     | _ => tasks_of s m = ngood (m_bad y) (m_num y)
     end).

Lemma complete_of_rest c tr :
  clean (run c tr) -> taint_size (run c tr) = false -> taint_iter (run c tr) = false ->
  cf_size c <> Fin 0 -> at_rest (run c tr) -> complete_at c (run c tr).
Proof.
  intros Hc Hts Hti Hsz HR.
  assert (Hsz' : cf_size (cfg (run c tr)) <> Fin 0) by (rewrite cfg_run; exact Hsz).
  destruct (no_work_stranded_run c tr Hc Hts Hsz' HR) as (A & B & C & D).
  rewrite cfg_run in C.
  split; [exact A|split; [exact B|split; [exact C|split; [exact D|]]]].
  apply requests_complete_at_rest; auto; [now apply WFx_run|apply Extra_nc_run].
Qed.

(** ** cooperative labels preserve cleanliness, the taint flags and the configuration *)
Theorem live_preserved : forall c tr0, clean (run c tr0) ->
  forall tr, coop_run (run c tr0) tr ->
  clean (run c (tr0 ++ tr)) /\
  taint_size (run c (tr0 ++ tr)) = taint_size (run c tr0) /\
  taint_iter (run c (tr0 ++ tr)) = taint_iter (run c tr0) /\
  taint_self (run c (tr0 ++ tr)) = taint_self (run c tr0).
Proof.
  intros c tr0 Hc tr Hr. apply coop_run_crun in Hr. rewrite run_app.
  destruct (crun_measure tr (run c tr0) (WFx_run c tr0 Hc) Hc Hr) as (_ & B & C & _).
  split; [exact B|]. apply frt_taints. exact C.
Qed.

(** ** (2) every cooperative run is finite *)
Theorem live_bounded_mu2 : forall c tr0, clean (run c tr0) ->
  forall tr, coop_run (run c tr0) tr -> length tr <= mu2 (run c tr0).
Proof.
  intros c tr0 Hc tr Hr. apply coop_run_crun in Hr.
  destruct (crun_measure tr (run c tr0) (WFx_run c tr0 Hc) Hc Hr) as (_ & _ & _ & H). lia.
Qed.

Theorem live_bounded : forall c tr0, clean (run c tr0) ->
  exists N, forall tr, coop_run (run c tr0) tr -> length tr <= N.
Proof.
  intros c tr0 Hc. exists (mu2 (run c tr0)). apply live_bounded_mu2. exact Hc.
Qed.

(** the measure drops by at least the length of the run *)
Theorem live_measure : forall c tr0, clean (run c tr0) ->
  forall tr, coop_run (run c tr0) tr ->
  mu2 (run c (tr0 ++ tr)) + length tr <= mu2 (run c tr0).
Proof.
  intros c tr0 Hc tr Hr. apply coop_run_crun in Hr. rewrite run_app.
  destruct (crun_measure tr (run c tr0) (WFx_run c tr0 Hc) Hc Hr) as (_ & _ & _ & H). exact H.
Qed.

(** ** (1) some cooperative run leads to rest *)

(** the scheduler [coop_sched] brings the pool to rest within [mu2] steps, with every task done *)
Theorem live_sched : forall c tr0, clean (run c tr0) ->
  let s := run c tr0 in
  let tr := coop_sched (mu2 s) s in
  coop_run s tr /\ stuck (fold_left step tr s) /\ at_rest (fold_left step tr s) /\
  (forall t x, get_p (fold_left step tr s) t = Some x -> p_pc x = PDone).
Proof.
  intros c tr0 Hc s tr.
  pose proof (WFx_run c tr0 Hc) as X.
  destruct (coop_sched_settles (mu2 s) s X Hc (le_n _)) as [A B].
  destruct (crun_measure tr s X Hc A) as (X' & _).
  split; [apply coop_run_crun; exact A|]. split; [exact B|]. split.
  - apply stuck_at_rest; [exact (x_wf _ X')|exact B].
  - intros t x. apply stuck_task_done; [exact (wf5 _ (x_wf _ X'))|exact B].
Qed.

Theorem live_reaches_rest : forall c tr0, clean (run c tr0) ->
  exists tr, coop_run (run c tr0) tr /\ at_rest (fold_left step tr (run c tr0)).
Proof.
  intros c tr0 Hc. exists (coop_sched (mu2 (run c tr0)) (run c tr0)).
  destruct (live_sched c tr0 Hc) as (A & _ & B & _). split; [exact A|exact B].
Qed.

(** every cooperative run can be extended to one that ends at rest *)
Theorem live_reaches_rest_any : forall c tr0, clean (run c tr0) ->
  forall tr, coop_run (run c tr0) tr ->
  exists tr', coop_run (run c tr0) (tr ++ tr') /\
              at_rest (fold_left step (tr ++ tr') (run c tr0)) /\
              length (tr ++ tr') <= mu2 (run c tr0).
Proof.
  intros c tr0 Hc tr Hr. pose proof Hr as Hr0. apply coop_run_crun in Hr.
  destruct (crun_measure tr (run c tr0) (WFx_run c tr0 Hc) Hc Hr) as (X & Hc' & _ & _).
  set (s' := fold_left step tr (run c tr0)) in *.
  destruct (coop_sched_settles (mu2 s') s' X Hc' (le_n _)) as [A B].
  destruct (crun_measure _ s' X Hc' A) as (X' & _).
  exists (coop_sched (mu2 s') s').
  assert (Hall : coop_run (run c tr0) (tr ++ coop_sched (mu2 s') s')).
  { apply coop_run_crun. apply crun_app. split; auto. }
  split; [exact Hall|]. split.
  - rewrite fold_left_app. apply stuck_at_rest; [exact (x_wf _ X')|exact B].
  - apply live_bounded_mu2; auto.
Qed.

(** EVERY cooperative run that cannot be extended ends at rest, with every pool task done *)
Theorem live_maximal_rest : forall c tr0, clean (run c tr0) ->
  forall tr, coop_run (run c tr0) tr ->
  (forall l, ~ coop_run (run c tr0) (tr ++ [l])) ->
  at_rest (fold_left step tr (run c tr0)) /\
  (forall t x, get_p (fold_left step tr (run c tr0)) t = Some x -> p_pc x = PDone).
Proof.
  intros c tr0 Hc tr Hr Hmax. apply coop_run_crun in Hr.
  destruct (crun_measure tr (run c tr0) (WFx_run c tr0 Hc) Hc Hr) as (X & _).
  assert (St : stuck (fold_left step tr (run c tr0))).
  { apply crun_maximal_stuck; auto. intros l Hl. apply (Hmax l). apply coop_run_crun. exact Hl. }
  split.
  - apply stuck_at_rest; [exact (x_wf _ X)|exact St].
  - intros t x. apply stuck_task_done; [exact (wf5 _ (x_wf _ X))|exact St].
Qed.

(** ** (3) eventual completion *)

(** a cooperative run that ends at rest ends complete *)
Lemma coop_rest_complete c tr0 tr :
  clean (run c tr0) -> taint_size (run c tr0) = false -> taint_iter (run c tr0) = false ->
  cf_size c <> Fin 0 -> coop_run (run c tr0) tr -> at_rest (run c (tr0 ++ tr)) ->
  complete_at c (run c (tr0 ++ tr)).
Proof.
  intros Hc Hts Hti Hsz Hr HR.
  destruct (live_preserved c tr0 Hc tr Hr) as (Hc' & Es & Ei & _).
  apply complete_of_rest; auto; congruence.
Qed.

Theorem C04_eventually_complete : forall c tr0,
  clean (run c tr0) -> taint_size (run c tr0) = false -> taint_iter (run c tr0) = false ->
  cf_size c <> Fin 0 ->
  exists tr, coop_run (run c tr0) tr /\ at_rest (run c (tr0 ++ tr)) /\
             complete_at c (run c (tr0 ++ tr)).
Proof.
  intros c tr0 Hc Hts Hti Hsz.
  destruct (live_reaches_rest c tr0 Hc) as (tr & Hr & HR).
  exists tr. rewrite <- run_app in HR. split; [exact Hr|]. split; [exact HR|].
  apply coop_rest_complete; auto.
Qed.

(** ... and that is where EVERY maximal cooperative run ends *)
Theorem C04_complete_every_maximal : forall c tr0,
  clean (run c tr0) -> taint_size (run c tr0) = false -> taint_iter (run c tr0) = false ->
  cf_size c <> Fin 0 ->
  forall tr, coop_run (run c tr0) tr -> (forall l, ~ coop_run (run c tr0) (tr ++ [l])) ->
  at_rest (run c (tr0 ++ tr)) /\ complete_at c (run c (tr0 ++ tr)).
Proof.
  intros c tr0 Hc Hts Hti Hsz tr Hr Hmax.
  destruct (live_maximal_rest c tr0 Hc tr Hr Hmax) as [HR _].
  rewrite <- run_app in HR. split; [exact HR|]. apply coop_rest_complete; auto.
Qed.

(** ** Non-vacuity *)

(** executable version of [at_rest] *)
Definition at_rest_b (s : state) : bool :=
  match ctl s, ready s, t_running s with
  | CIdle, [], [] => forallb (fun x => negb (in_callbacks x)) (ptasks s)
  | _, _, _ => false
  end.

Lemma at_rest_b_sound s : at_rest_b s = true -> at_rest s.
Proof.
  unfold at_rest_b. destruct (ctl s) eqn:C; [|discriminate].
  destruct (ready s) eqn:R; [|discriminate]. destruct (t_running s) eqn:T; [|discriminate].
  intros H. split; [split; [auto|split; [auto|]]|auto].
  intros t x G. rewrite forallb_forall in H. apply nth_error_In in G.
  specialize (H x G). destruct (in_callbacks x); [discriminate|reflexivity].
Qed.

(** the values of the measure along a run *)
Fixpoint mu2s (tr : list label) (s : state) : list nat :=
  match tr with
  | [] => [mu2 s]
  | l :: t => mu2 s :: mu2s t (step s l)
  end.

(** apply(num=3) on a size-2 pool with a slow (async) end callback and a slow cancel callback:
    tasks 0 and 1 wait at their gates, the spawner waits for room for the third invocation, the
    loop is idle.  An explicit cooperative run of 21 labels (the workers are let go one after the
    other, task 0's end callback is released late) brings the pool to rest: the blocked third
    invocation got its task, all three tasks are done, the spawner ended normally, the capacity is
    free again.  The measure goes down strictly at every label, from 45 to 0.  The scheduler
    [coop_sched] finds another run (it opens the gate of the youngest waiting task first), of the
    same length. *)
Definition tr_slow : list label :=
  [ LOp (OpApply 3 [] false w_sp (CbAsync true false) (CbAsync true false) None);
    LRun (HT (TM 0)); LRun (HT (TP 0)); LGo; LRun (HT (TP 1)); LGo ].

(** worker 0 returns, its end callback suspends; the spawner gets the slot and creates task 2;
    worker 1 is let go while task 2 starts; worker 1 raises, its end callback suspends and is
    released; then two gates are opened in a row (worker 2, end callback of task 0); the last end
    callback is released. *)
Definition tr_coop : list label :=
  [ LOp (OpFinish 0 FinReturn); LRun (HT (TP 0)); LGo; LGo;
    LRun (HT (TM 0));
    LOp (OpFinish 1 FinRaise); LRun (HT (TP 2)); LGo;
    LRun (HT (TP 1)); LGo; LGo;
    LOp (OpReleaseCb 1); LRun (HT (TP 1));
    LOp (OpFinish 2 FinReturn); LOp (OpReleaseCb 0);
    LRun (HT (TP 0)); LRun (HT (TP 2)); LGo; LGo;
    LOp (OpReleaseCb 2); LRun (HT (TP 2)) ].

Example live_example :
  let s := run cfg2 tr_slow in
  let s' := fold_left step tr_coop s in
  clean s /\ taint_size s = false /\ taint_iter s = false /\
  ctl s = CIdle /\ ready s = [] /\ map p_pc (ptasks s) = [PWaitGate; PWaitGate] /\
  map m_pc (mtasks s) = [MWaitPool] /\ sem_waiters s = [0] /\ tasks_of s 0 = 2 /\
  mu s = 27 /\ psi s = 9 /\ mu2 s = 45 /\
  crun s tr_coop /\ length tr_coop = 21 /\
  mu2s tr_coop s = [45; 44; 43; 38; 36; 30; 29; 28; 26; 25; 20; 18; 17; 15; 14; 13; 11; 10; 5; 3;
                    2; 0] /\
  at_rest_b s' = true /\ next_coop s' = None /\
  map p_pc (ptasks s') = [PDone; PDone; PDone] /\ map p_el (ptasks s') = [0; 1; 2] /\
  map p_final (ptasks s') = [Some OResult; Some (OExc (EUser 1 SWorker)); Some OResult] /\
  map m_final (mtasks s') = [Some OResult] /\ tasks_of s' 0 = 3 /\
  sem_value s' = Fin 2 /\ sem_waiters s' = [] /\
  length (coop_sched (mu2 s) s) = 21 /\
  at_rest_b (fold_left step (coop_sched (mu2 s) s) s) = true.
Proof. vm_compute. repeat split; reflexivity. Qed.

(** the theorems instantiated on that state *)
Example live_example_thm :
  let s := run cfg2 tr_slow in
  (forall tr, coop_run s tr -> length tr <= 45) /\
  (exists tr, coop_run s tr /\ at_rest (run cfg2 (tr_slow ++ tr)) /\
              complete_at cfg2 (run cfg2 (tr_slow ++ tr))) /\
  coop_run s tr_coop /\ at_rest (run cfg2 (tr_slow ++ tr_coop)) /\
  complete_at cfg2 (run cfg2 (tr_slow ++ tr_coop)).
Proof.
  assert (Hc : clean (run cfg2 tr_slow)) by (vm_compute; reflexivity).
  assert (Hts : taint_size (run cfg2 tr_slow) = false) by (vm_compute; reflexivity).
  assert (Hti : taint_iter (run cfg2 tr_slow) = false) by (vm_compute; reflexivity).
  assert (Hm : mu2 (run cfg2 tr_slow) = 45) by (vm_compute; reflexivity).
  assert (Hsz : cf_size cfg2 <> Fin 0) by discriminate.
  assert (Hr : coop_run (run cfg2 tr_slow) tr_coop).
  { apply coop_run_crun. vm_compute. repeat split; reflexivity. }
  assert (HR : at_rest (run cfg2 (tr_slow ++ tr_coop))).
  { apply at_rest_b_sound. vm_compute. reflexivity. }
  split; [|split; [|split; [exact Hr|split; [exact HR|]]]].
  - intros tr H. rewrite <- Hm. apply live_bounded_mu2; auto.
  - apply C04_eventually_complete; auto.
  - apply coop_rest_complete; auto.
Qed.

(** ** The preconditions of (3) are needed *)

(** A pool of size 0 comes to rest, but never starts anything: the accepted apply(1) keeps waiting
    for room.  (1) and (2) hold; the conclusion of (3) does not. *)
Definition cfg0 : config :=
  {| cf_size := Fin 0; cf_kind := KTask; cf_bad := []; cf_w := w_sp; cf_ecb := CbNone;
     cf_ccb := CbNone |}.

Example size0_rests_incomplete :
  let s := run cfg0 [LOp (OpApply 1 [] false w_sp CbNone CbNone None); LRun (HT (TM 0))] in
  clean s /\ taint_size s = false /\ taint_iter s = false /\
  next_coop s = None /\ at_rest_b s = true /\
  map m_pc (mtasks s) = [MWaitPool] /\ map m_final (mtasks s) = [None] /\
  map m_dead (mtasks s) = [false] /\ tasks_of s 0 = 0.
Proof. vm_compute. repeat split; reflexivity. Qed.

(** The [pool_size] setter overwrites the free count without waking anybody (D6): size 1 pool,
    pool_size = 0, apply(1) (the spawner waits for room), pool_size = 3.  Three slots are free, the
    loop is idle, the cooperative environment has nothing to do ([next_coop s = None], hence
    [stuck s]) — and the spawner waits for ever: the request made none of its invocations.  Only
    [taint_size] tells this run from the runs of the theorem. *)
Definition cfg1 : config :=
  {| cf_size := Fin 1; cf_kind := KTask; cf_bad := []; cf_w := w_sp; cf_ecb := CbNone;
     cf_ccb := CbNone |}.

Definition tr_resize : list label :=
  [ LOp (OpSetSize (Some (Fin 0))); LOp (OpApply 1 [] false w_sp CbNone CbNone None);
    LRun (HT (TM 0)); LOp (OpSetSize (Some (Fin 3))) ].

Example resize_rests_incomplete :
  let s := run cfg1 tr_resize in
  clean s /\ taint_size s = true /\ taint_iter s = false /\
  next_coop s = None /\ at_rest_b s = true /\ sem_value s = Fin 3 /\ sem_waiters s = [0] /\
  map m_pc (mtasks s) = [MWaitPool] /\ map m_final (mtasks s) = [None] /\
  map m_dead (mtasks s) = [false] /\ tasks_of s 0 = 0.
Proof. vm_compute. repeat split; reflexivity. Qed.

Example resize_stuck : stuck (run cfg1 tr_resize).
Proof. apply next_coop_none. vm_compute. reflexivity. Qed.

Print Assumptions live_reaches_rest.
Print Assumptions live_bounded.
Print Assumptions live_maximal_rest.
Print Assumptions C04_eventually_complete.
Print Assumptions C04_complete_every_maximal.
Print Assumptions live_example_thm.
