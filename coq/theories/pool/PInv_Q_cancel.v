(** cancel_group / cancel_all *)
From TP Require Export PInv_Q_new.
Set Implicit Arguments. Unset Strict Implicit.

Lemma cancel_group_metas_ssim s g : ssim s (cancel_group_metas s g).
Proof.
  unfold cancel_group_metas. destruct (glookup g (gmeta s)) as [ms|]; [|apply ssim_refl].
  eapply ssim_trans with (s2 := set_gmeta s (gremove g (gmeta s))); [apply ssim_ceq; auto|].
  eapply ssim_trans; [apply (@fold_ssim _ cancel_m ms cancel_m_ssim)|].
  apply ssim_ceq; auto.
Qed.

Lemma mark_dead_ssim s g : ssim s (mark_dead s g).
Proof.
  unfold mark_dead. constructor; cbn; auto using F2p_refl.
  apply Forall2_map_r. intros x. destruct (gname_eqb g (m_group x)); [msim_tac|apply msim_refl].
Qed.

Lemma cancel_group_body_ssim s g ids : ssim s (cancel_group_body s g ids).
Proof.
  unfold cancel_group_body.
  eapply ssim_trans; [apply cancel_group_metas_ssim|].
  eapply ssim_trans; [apply mark_dead_ssim|].
  apply fold_ssim. intros s0 t. destruct (mem t (t_running s0)); [apply cancel_p_ssim|apply ssim_refl].
Qed.

Definition dead_for (g : gname) (s : state) : Prop :=
  forall m y, get_m s m = Some y -> m_group y = g -> m_dead y = true.

Lemma ssim_dead_for g s s' : ssim s s' -> dead_for g s -> dead_for g s'.
Proof.
  intros Hs H m y' Hy' Hg. destruct (ssim_get_m Hs Hy') as [y [Hy [[_ [M2 _]] [_ [_ [_ [_ [_ [_ D]]]]]]]]].
  apply D. eapply H; eauto. congruence.
Qed.

Lemma mark_dead_dead_for s g : dead_for g (mark_dead s g).
Proof.
  intros m y Hy Hg. unfold get_m, mark_dead in Hy. cbn in Hy.
  rewrite nth_error_map in Hy. destruct (nth_error (mtasks s) m) as [x|]; [|discriminate].
  simpl in Hy. inversion Hy; subst y; clear Hy.
  destruct (gname_eqb_spec g (m_group x)) as [E|E]; cbn in *; auto; congruence.
Qed.

Lemma cancel_group_body_dead s g ids : dead_for g (cancel_group_body s g ids).
Proof.
  unfold cancel_group_body.
  eapply ssim_dead_for; [|apply mark_dead_dead_for].
  apply fold_ssim. intros s0 t. destruct (mem t (t_running s0)); [apply cancel_p_ssim|apply ssim_refl].
Qed.

Lemma cancel_all_groups_ssim gs s : ssim s (cancel_all_groups s gs).
Proof.
  revert s; induction gs as [|[g ids] t IH]; intros s; simpl; [apply ssim_refl|].
  eapply ssim_trans; [apply cancel_group_body_ssim|apply IH].
Qed.

Lemma cancel_all_groups_dead gs s g :
  In g (map fst gs) -> dead_for g (cancel_all_groups s gs).
Proof.
  revert s; induction gs as [|[h ids] t IH]; intros s; simpl; [tauto|].
  intros [E|E].
  - subst. eapply ssim_dead_for; [apply cancel_all_groups_ssim|apply cancel_group_body_dead].
  - apply IH; auto.
Qed.

Lemma dead_false (b : bool) (P : Prop) : (b = true -> P) -> (P -> False) -> b = false.
Proof. destruct b; auto. intros H1 H2. exfalso; auto. Qed.

Lemma IGr_remove s r g :
  IGr s -> ssim (set_groups s (gremove g (groups s))) r -> dead_for g r -> IGr r.
Proof.
  intros [G1 G2 G3 G4 G5 G6] Hs Hd.
  pose proof (ss_g Hs) as Eg. pose proof (ss_n Hs) as En. cbn in Eg, En.
  fold (gcat (groups s)) in G2, G3.
  constructor; fold (gcat (groups r)); rewrite ?Eg, ?En.
  - apply NoDup_gremove_keys; auto.
  - apply NoDup_gcat_gremove; auto.
  - intros t Ht. apply G3. eapply In_gcat_gremove; eauto.
  - intros g' ids t x' Hl Hi Hx'.
    destruct (ssim_get_p Hs Hx') as [x [Hx [[_ [_ [E _]]] _]]]. cbn in Hx.
    rewrite glookup_gremove in Hl by auto. destruct (gname_eqb g' g); [discriminate|].
    rewrite E. eapply G4; eauto.
  - intros t x' y' Hx' Hy' Hdd.
    destruct (ssim_get_p Hs Hx') as [x [Hx [[E1 [_ [E3 _]]] _]]]. cbn in Hx.
    rewrite E1 in Hy'.
    destruct (ssim_get_m Hs Hy') as [y [Hy [[_ [M2 _]] [_ [_ [_ [_ [_ [_ D]]]]]]]]]. cbn in Hy.
    assert (m_dead y = false) as Hdy by (destruct (m_dead y); auto; rewrite D in Hdd; auto).
    destruct (G5 _ _ _ Hx Hy Hdy) as [A [ids [B C]]].
    rewrite E3, M2. split; auto. exists ids. split; auto.
    rewrite glookup_gremove by auto.
    destruct (gname_eqb_spec (m_group y) g) as [Eg'|Ne]; auto.
    rewrite (Hd _ _ Hy') in Hdd; [discriminate|congruence].
  - intros m y' Hy' Hf Hdd.
    destruct (ssim_get_m Hs Hy') as [y [Hy [[_ [M2 _]] [_ [_ [F [_ [_ [_ D]]]]]]]]]. cbn in Hy.
    assert (m_dead y = false) as Hdy by (destruct (m_dead y); auto; rewrite D in Hdd; auto).
    assert (ghas (m_group y) (groups s) = true) as Hh by (eapply G6; eauto; congruence).
    rewrite M2. unfold ghas in *. rewrite glookup_gremove by auto.
    destruct (gname_eqb_spec (m_group y) g) as [Eg'|Ne]; auto.
    rewrite (Hd _ _ Hy') in Hdd; [discriminate|congruence].
Qed.

Lemma IGr_clear s r :
  IGr s -> ssim (set_groups s []) r ->
  (forall g, In g (map fst (groups s)) -> dead_for g r) -> IGr r.
Proof.
  intros [G1 G2 G3 G4 G5 G6] Hs Hd.
  pose proof (ss_g Hs) as Eg. pose proof (ss_n Hs) as En. cbn in Eg, En.
  constructor; rewrite ?Eg, ?En; simpl.
  - constructor.
  - constructor.
  - tauto.
  - intros g' ids t x' Hl. discriminate.
  - intros t x' y' Hx' Hy' Hdd. exfalso.
    destruct (ssim_get_p Hs Hx') as [x [Hx [[E1 [_ [E3 _]]] _]]]. cbn in Hx.
    rewrite E1 in Hy'.
    destruct (ssim_get_m Hs Hy') as [y [Hy [[_ [M2 _]] [_ [_ [_ [_ [_ [_ D]]]]]]]]]. cbn in Hy.
    assert (m_dead y = false) as Hdy by (destruct (m_dead y); auto; rewrite D in Hdd; auto).
    destruct (G5 _ _ _ Hx Hy Hdy) as [A [ids [B C]]].
    apply glookup_In in B. apply (in_map fst) in B. simpl in B.
    rewrite (Hd _ B _ _ Hy') in Hdd; [discriminate|congruence].
  - intros m y' Hy' Hf Hdd. exfalso.
    destruct (ssim_get_m Hs Hy') as [y [Hy [[_ [M2 _]] [_ [_ [F [_ [_ [_ D]]]]]]]]]. cbn in Hy.
    assert (m_dead y = false) as Hdy by (destruct (m_dead y); auto; rewrite D in Hdd; auto).
    assert (ghas (m_group y) (groups s) = true) as Hh by (eapply G6; eauto; congruence).
    apply ghas_true in Hh. destruct Hh as [v B].
    apply glookup_In in B. apply (in_map fst) in B. simpl in B.
    rewrite (Hd _ B _ _ Hy') in Hdd; [discriminate|congruence].
Qed.

Lemma IR_set_groups s gs : IR s <-> IR (set_groups s gs).
Proof. split; intros []; constructor; auto. Qed.

Lemma do_op_cancel_group s g :
  IR s -> IGr s -> IR (do_op s (OpCancelGroup g)) /\ IGr (do_op s (OpCancelGroup g)).
Proof.
  intros HIR HG. cbn [do_op].
  assert (ssim s (know s g)) as Hk by (apply ssim_ceq; autorewrite with fr; auto).
  rewrite know_groups.
  destruct (glookup g (groups s)) as [ids|].
  - set (s2 := set_groups (know s g) (gremove g (groups s))).
    pose proof (cancel_group_body_ssim s2 g ids) as Hs. split.
    + eapply ssim_IR; [exact Hs|]. unfold s2. apply -> IR_set_groups. eapply ssim_IR; eauto.
    + eapply IGr_remove with (s := know s g) (g := g).
      * eapply ssim_IGr; eauto.
      * rewrite know_groups. exact Hs.
      * apply cancel_group_body_dead.
  - apply both_ssim with (s := s); auto.
    eapply ssim_trans; [exact Hk|]. apply ssim_ceq; auto.
Qed.

Lemma do_op_cancel_all s :
  IR s -> IGr s -> IR (do_op s OpCancelAll) /\ IGr (do_op s OpCancelAll).
Proof.
  intros HIR HG. cbn [do_op].
  pose proof (cancel_all_groups_ssim (rev (groups s)) (set_groups s [])) as Hs. split.
  - eapply ssim_IR; [exact Hs|]. apply -> IR_set_groups. auto.
  - eapply IGr_clear with (s := s); auto.
    intros g Hg. apply cancel_all_groups_dead. rewrite map_rev. apply -> in_rev. auto.
Qed.
