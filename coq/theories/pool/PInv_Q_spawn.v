(** Spawners: finish / suspend / try_start / the loops. *)
From TP Require Export PInv_Q_reg.
Set Implicit Arguments. Unset Strict Implicit.

Definition fin_x (x : mtask) (e : option exn) : mtask :=
  set_m_final (set_m_pc (set_m_mc (set_m_fw x None) false) MDone) (Some (final_of e (m_mc x))).

Definition susp_x (x : mtask) (pc : mpc) : mtask :=
  if m_mc x then set_m_fw (set_m_mc (set_m_pc x pc) false) (Some FCancelled)
  else set_m_fw (set_m_pc x pc) (Some FPending).

Definition same5 (s s' : state) : Prop :=
  ptasks s' = ptasks s /\ groups s' = groups s /\ num_started s' = num_started s /\
  taint_iter s' = taint_iter s /\ closed s' = closed s.

Lemma finish_m_fields s m x e :
  mtasks (finish_m s m x e) = upd (mtasks s) m (fin_x x e) /\ same5 s (finish_m s m x e).
Proof. unfold finish_m, put_m, same5. repeat split; frw; reflexivity. Qed.

Lemma suspend_m_fields s m x pc :
  mtasks (suspend_m s m x pc) = upd (mtasks s) m (susp_x x pc) /\ same5 s (suspend_m s m x pc).
Proof. unfold suspend_m, susp_x, put_m, same5. destruct (m_mc x); repeat split; frw; reflexivity. Qed.

Lemma to_iter_fields s m x :
  get_m s m = Some x ->
  mtasks (to_iter s m) = upd (mtasks s) m (set_m_pc x MAtIter) /\ same5 s (to_iter s m).
Proof. intros H. unfold to_iter, put_m, same5. rewrite H. repeat split; frw; reflexivity. Qed.

Global Arguments finish_m : simpl never.
Global Arguments suspend_m : simpl never.
Global Arguments to_iter : simpl never.

(** What we know while spawner code runs *)
Record SP (s : state) : Prop := {
  sp_ir : IR s; sp_igr : IGr s;
  sp_len : num_started s = length (ptasks s)
}.

Definition mc_ok (s : state) (x : mtask) : Prop :=
  m_mc x = true -> m_dead x = true \/ taint_iter s = true.

Lemma mterm_pc x : m_pc x <> MWaitMap -> mterm x = 0.
Proof. unfold mterm. destruct (m_pc x); auto. congruence. Qed.

Lemma mterm_fw x : m_fw x <> Some FOk -> mterm x = 0.
Proof. unfold mterm. destruct (m_pc x); auto. destruct (m_fw x) as [[]|]; auto. congruence. Qed.

Lemma final_ok_taint s s' x : taint_iter s' = taint_iter s -> req_final_ok s x -> req_final_ok s' x.
Proof. unfold req_final_ok. intros ->. auto. Qed.

Lemma upd_good s s' m x x' :
  SP s -> get_m s m = Some x -> mimm x x' -> m_idx x <= m_idx x' ->
  m_ncreated x' = m_ncreated x -> m_dead x' = m_dead x ->
  (m_final x' = None -> m_final x = None) ->
  req_progress s m x' -> req_final_ok s x' -> mapsem_ok s m x' ->
  same5 s s' -> mtasks s' = upd (mtasks s) m x' -> SP s'.
Proof.
  intros [HIR HG Hlen] Hx Hi Hidx Hn Hd Hf Hp Hfin Hms [E1 [E2 [E3 [E4 E5]]]] Em.
  destruct (@both_put_m s s' m x x') as [A B]; auto.
  - eapply final_ok_taint; eauto.
  - congruence.
  - constructor; auto; congruence.
Qed.

Definition msum (y : mtask) : nat := m_mapval y + b2n (m_holds y) + mterm y.

Lemma mapsem_msum s m x x' :
  mimm x x' -> msum x' = msum x ->
  (is_map x = false -> m_mapval x' = 0 /\ m_holds x' = false) ->
  mapsem_ok s m x -> mapsem_ok s m x'.
Proof.
  intros [M1 [_ [_ [_ [_ [_ [_ [_ M9]]]]]]]] Hs Hn. rewrite !mapsem_alt, M1, M9.
  unfold msum, is_map in *. destruct (m_kind x); intros H; try (destruct Hn; auto; tauto). lia.
Qed.

Lemma progress_same s m x x' :
  mimm x x' -> m_idx x' = m_idx x -> m_ncreated x' = m_ncreated x ->
  req_progress s m x -> req_progress s m x'.
Proof. intros. eapply progress_transfer; eauto. Qed.

Lemma final_same s x x' :
  mimm x x' -> m_idx x' = m_idx x -> m_final x' = m_final x -> m_dead x' = m_dead x ->
  req_final_ok s x -> req_final_ok s x'.
Proof.
  intros [M1 [_ [M3 [_ [M5 _]]]]] I F D. unfold req_final_ok. rewrite M1, M3, M5, I, F, D. auto.
Qed.

(** An update that changes neither the counters nor the per-call semaphore sum *)
Lemma upd_quiet s s' m x x' :
  SP s -> get_m s m = Some x -> mimm x x' -> m_idx x' = m_idx x ->
  m_ncreated x' = m_ncreated x -> m_dead x' = m_dead x -> m_final x' = m_final x ->
  msum x' = msum x -> (is_map x = false -> m_mapval x' = 0 /\ m_holds x' = false) ->
  same5 s s' -> mtasks s' = upd (mtasks s) m x' -> SP s'.
Proof.
  intros HSP Hx Hi Hidx Hn Hd Hf Hs Hnm Hsame Em.
  pose proof (sp_ir HSP) as HIR.
  eapply upd_good; eauto; try lia; try congruence.
  - eapply progress_same; eauto. apply (IR_progress _ HIR _ _ Hx).
  - eapply final_same; eauto. apply (IR_final _ HIR _ _ Hx).
  - eapply mapsem_msum; eauto. apply (IR_mapsem _ HIR _ _ Hx).
Qed.

Definition complete (x : mtask) : Prop :=
  match m_kind x with MMap _ => m_idx x = length (m_els x) | _ => m_idx x = m_num x end.

Definition fin_ok (s : state) (x : mtask) (e : option exn) : Prop :=
  match final_of e (m_mc x) with
  | OResult => m_dead x = true \/ taint_iter s = true \/ complete x
  | OCancelled => m_dead x = true \/ taint_iter s = true
  | OExc _ => False
  end.

Lemma mterm_fin x e : mterm (fin_x x e) = 0.
Proof. reflexivity. Qed.

Lemma finish_good s m x0 x e :
  SP s -> get_m s m = Some x0 -> mimm x0 x -> m_idx x = m_idx x0 ->
  m_ncreated x = m_ncreated x0 -> m_dead x = m_dead x0 ->
  m_mapval x + b2n (m_holds x) = msum x0 ->
  (is_map x0 = false -> m_mapval x = 0 /\ m_holds x = false) ->
  fin_ok s x e -> SP (finish_m s m x e).
Proof.
  intros HSP Hx Hi Hidx Hn Hd Hs Hnm Hfin.
  pose proof (sp_ir HSP) as HIR.
  destruct (finish_m_fields s m x e) as [Em Hsame].
  assert (Hi' : mimm x0 (fin_x x e)) by (unfold mimm, fin_x in *; cbn; tauto).
  eapply upd_good with (x := x0) (x' := fin_x x e);
    [exact HSP | exact Hx | exact Hi' | cbn; lia | cbn; exact Hn | cbn; exact Hd
    | cbn; discriminate | | | | exact Hsame | exact Em].
  - eapply progress_same with (x := x0); [exact Hi' | cbn; exact Hidx | cbn; exact Hn |].
    apply (IR_progress _ HIR _ _ Hx).
  - unfold req_final_ok, fin_ok, complete, fin_x in *. cbn.
    destruct (final_of e (m_mc x)); auto.
  - eapply mapsem_msum with (x := x0); [exact Hi' | | exact Hnm |].
    + unfold msum at 1. rewrite mterm_fin. cbn. lia.
    + apply (IR_mapsem _ HIR _ _ Hx).
Qed.

Lemma SP_same s s1 : SP s -> same5 s s1 -> mtasks s1 = mtasks s -> SP s1.
Proof.
  intros [HIR HG Hlen] [E1 [E2 [E3 [E4 E5]]]] Em.
  assert (ssim s s1) as Hs by (apply ssim_ceq; auto).
  constructor; try congruence.
  - eapply ssim_IR; eauto.
  - eapply ssim_IGr; eauto.
Qed.

Lemma mterm_susp x pc : mterm (susp_x x pc) = 0.
Proof. unfold susp_x, mterm. destruct (m_mc x); cbn; destruct pc; auto. Qed.

Lemma suspend_good s m x0 x pc :
  SP s -> get_m s m = Some x0 -> mimm x0 x -> m_idx x = m_idx x0 ->
  m_ncreated x = m_ncreated x0 -> m_dead x = m_dead x0 -> m_final x = m_final x0 ->
  m_mapval x + b2n (m_holds x) = msum x0 ->
  (is_map x0 = false -> m_mapval x = 0 /\ m_holds x = false) ->
  SP (suspend_m s m x pc).
Proof.
  intros HSP Hx Hi Hidx Hn Hd Hf Hs Hnm.
  destruct (suspend_m_fields s m x pc) as [Em Hsame].
  assert (Hfld : forall A (f : mtask -> A),
            (forall y v, f (set_m_fw y v) = f y) -> (forall y v, f (set_m_mc y v) = f y) ->
            (forall y v, f (set_m_pc y v) = f y) -> f (susp_x x pc) = f x).
  { intros A f F1 F2 F3. unfold susp_x. destruct (m_mc x); rewrite ?F1, ?F2, ?F3; auto. }
  eapply upd_quiet with (x := x0) (x' := susp_x x pc);
    [exact HSP | exact Hx | | | | | | | | exact Hsame | exact Em].
  - unfold mimm in *. rewrite !Hfld by reflexivity. exact Hi.
  - rewrite Hfld by reflexivity. exact Hidx.
  - rewrite Hfld by reflexivity. exact Hn.
  - rewrite Hfld by reflexivity. exact Hd.
  - rewrite Hfld by reflexivity. exact Hf.
  - unfold msum at 1. rewrite mterm_susp, !Hfld by reflexivity. lia.
  - rewrite !Hfld by reflexivity. exact Hnm.
Qed.

Lemma to_iter_good s m x :
  SP s -> get_m s m = Some x -> mterm x = 0 -> SP (to_iter s m).
Proof.
  intros HSP Hx Ht. destruct (to_iter_fields Hx) as [Em Hsame].
  eapply upd_quiet with (x := x) (x' := set_m_pc x MAtIter);
    [exact HSP | exact Hx | unfold mimm; cbn; tauto | reflexivity | reflexivity | reflexivity
    | reflexivity | | | exact Hsame | exact Em].
  - unfold msum, mterm in *. cbn. lia.
  - intros Hm. pose proof (IR_mapsem _ (sp_ir HSP) _ _ Hx) as H. rewrite mapsem_alt in H.
    unfold is_map in Hm. cbn. destruct (m_kind x); try discriminate; tauto.
Qed.

Lemma same5_sym s s' : same5 s s' -> same5 s' s.
Proof. unfold same5. intuition congruence. Qed.
Lemma same5_trans s1 s2 s3 : same5 s1 s2 -> same5 s2 s3 -> same5 s1 s3.
Proof. unfold same5. intuition congruence. Qed.

Lemma msum_mterm0 x : mterm x = 0 -> m_mapval x + b2n (m_holds x) = msum x.
Proof. unfold msum. lia. Qed.

Lemma nonmap_sem s m x :
  IR s -> get_m s m = Some x -> is_map x = false -> m_mapval x = 0 /\ m_holds x = false.
Proof.
  intros HIR Hx Hm. pose proof (IR_mapsem _ HIR _ _ Hx) as H. rewrite mapsem_alt in H.
  unfold is_map in Hm. destruct (m_kind x); try discriminate; tauto.
Qed.

Lemma try_start_good s s0 m x :
  SP s0 -> get_m s0 m = Some x -> same5 s s0 -> mtasks s0 = upd (mtasks s) m x ->
  m_final x = None -> mterm x = 0 -> can_start x -> m_holds x = is_map x -> closed s = false ->
  SP (fst (try_start s m x)) /\
  (snd (try_start s m x) = true -> get_m (fst (try_start s m x)) m = Some (reg_x x)) /\
  taint_iter (fst (try_start s m x)) = taint_iter s /\
  closed (fst (try_start s m x)) = closed s.
Proof.
  intros HSP Hx Hsame Em Hlive Hmt Hcs Hh Hcl. unfold try_start.
  pose proof Hsame as [E1 [E2 [E3 [E4 E5]]]].
  rewrite Hcl.
  destruct (sem_locked s); cbn [fst snd].
  - split; [|split; [discriminate|split; [|rewrite <- Hcl];
      apply (proj2 (suspend_m_fields (set_sem_waiters s (sem_waiters s ++ [m])) m x MWaitPool))]].
    pose proof (@suspend_good s0 m x x MWaitPool HSP Hx (mimm_refl x) eq_refl eq_refl eq_refl
                  eq_refl (msum_mterm0 Hmt) (nonmap_sem (sp_ir HSP) Hx)) as H0.
    destruct (suspend_m_fields s0 m x MWaitPool) as [F1 F2].
    destruct (suspend_m_fields (set_sem_waiters s (sem_waiters s ++ [m])) m x MWaitPool) as [F3 F4].
    eapply SP_same; [exact H0| |].
    + eapply same5_trans; [apply same5_sym; exact F2|].
      eapply same5_trans; [apply same5_sym; exact Hsame|]. exact F4.
    + rewrite F1, F3, Em. cbn. rewrite upd_upd. reflexivity.
  - destruct (register_fields (set_sem_value s (ninf_pred (sem_value s))) m x)
      as [R1 [R2 [R3 [R4 [R5 R6]]]]]. cbn in R1, R2, R3, R4, R5, R6.
    set (s' := register (set_sem_value s (ninf_pred (sem_value s))) m x) in *.
    assert (R2' : mtasks s' = upd (mtasks s0) m (reg_x x)) by (rewrite R2, Em, upd_upd; auto).
    destruct HSP as [HIR HG Hlen]. split; [|split; [|split; [exact R5|rewrite <- Hcl; exact R6]]].
    + constructor.
      * eapply IR_reg with (s := s0) (m := m) (x := x); eauto; congruence.
      * eapply IGr_reg with (s := s0) (m := m) (x := x); eauto; congruence.
      * rewrite E3, E1 in Hlen. rewrite R4, R1, app_length. simpl. lia.
    + intros _. unfold get_m in *. rewrite R2'. eapply nth_error_upd_same; eauto.
Qed.

Lemma upd_same {A} (l : list A) n x : nth_error l n = Some x -> upd l n x = l.
Proof.
  revert n; induction l as [|h t IH]; intros [|n] H; simpl in *; try discriminate; auto.
  - inversion H; auto.
  - f_equal; auto.
Qed.

Lemma same5_refl s : same5 s s.
Proof. unfold same5; auto. Qed.

Definition loop_pre (s : state) (m : nat) (rem : nat) : Prop :=
  forall x, get_m s m = Some x ->
    is_map x = false /\ m_final x = None /\ mterm x = 0 /\ mc_ok s x /\ rem = m_num x - m_idx x.

Lemma apply_loop_good rem :
  forall s m, SP s -> closed s = false -> loop_pre s m rem -> SP (apply_loop rem s m).
Proof.
  induction rem as [|r IH]; intros s m HSP Hcl Hpre; simpl;
    destruct (get_m s m) as [x|] eqn:Hx; auto;
    destruct (Hpre _ Hx) as [Hnm [Hlive [Hmt [Hmc Hrem]]]];
    pose proof (sp_ir HSP) as HIR;
    pose proof (IR_progress _ HIR _ _ Hx) as Hpr;
    destruct (nonmap_sem HIR Hx Hnm) as [Hmv Hho];
    assert (Hk : match m_kind x with MMap _ => False | _ => True end)
      by (unfold is_map in Hnm; destruct (m_kind x); auto; discriminate).
  - (* end of the loop *)
    eapply finish_good with (x0 := x); eauto using mimm_refl.
    + apply msum_mterm0; auto.
    + unfold fin_ok, final_of, complete. destruct (m_mc x) eqn:Emc.
      * apply Hmc; auto.
      * right; right. unfold req_progress in Hpr. destruct (m_kind x); try tauto; lia.
  - destruct (nth (m_idx x) (m_bad x) false) eqn:Hbad.
    + (* the call raises: next iteration *)
      apply IH; [|exact Hcl|].
      * eapply upd_good with (x := x) (x' := set_m_idx x (S (m_idx x)));
          [exact HSP | exact Hx | unfold mimm; cbn; tauto | cbn; lia | reflexivity | reflexivity
          | cbn; auto | | | | | reflexivity]; cbn.
        -- unfold req_progress in *. cbn. rewrite Hbad in *.
           destruct (m_kind x); try tauto; lia.
        -- unfold req_final_ok. cbn. rewrite Hlive. auto.
        -- eapply mapsem_msum with (x := x); [unfold mimm; cbn; tauto|reflexivity| |].
           ++ intros _. cbn. auto.
           ++ apply (IR_mapsem _ HIR _ _ Hx).
        -- unfold same5, put_m. cbn. auto.
      * intros x' Hx'. unfold get_m, put_m in Hx'. cbn in Hx'.
        rewrite (nth_error_upd_same _ Hx) in Hx'. inversion Hx'; subst x'. cbn.
        repeat split; auto. lia.
    + (* try to start a task *)
      assert (Hcs : can_start x).
      { unfold can_start. destruct (m_kind x); try tauto; split; auto; lia. }
      destruct (@try_start_good s s m x HSP Hx (same5_refl s)) as [A [B [C D]]]; auto.
      { symmetry. apply upd_same. exact Hx. }
      { rewrite Hho, Hnm. auto. }
      destruct (try_start s m x) as [s' cont]. cbn [fst snd] in *.
      destruct cont; auto. apply IH; auto; [congruence|].
      intros x' Hx'. rewrite (B eq_refl) in Hx'. inversion Hx'; subst x'.
      repeat split; auto.
      * unfold mc_ok in *. cbn. rewrite C. auto.
      * cbn. lia.
Qed.

Definition run_pre (s : state) (m : nat) : Prop :=
  forall x, get_m s m = Some x -> m_final x = None /\ mterm x = 0 /\ mc_ok s x.

Lemma spawn_next_good s m : SP s -> closed s = false -> run_pre s m -> SP (spawn_next s m).
Proof.
  intros HSP Hcl Hpre. unfold spawn_next. destruct (get_m s m) as [x|] eqn:Hx; auto.
  destruct (Hpre _ Hx) as [Hlive [Hmt Hmc]].
  destruct (m_kind x) eqn:K.
  - apply apply_loop_good; auto. intros x' Hx'. rewrite Hx in Hx'. inversion Hx'; subst x'.
    unfold is_map. rewrite K. auto.
  - eapply to_iter_good; eauto.
  - apply apply_loop_good; auto. intros x' Hx'. rewrite Hx in Hx'. inversion Hx'; subst x'.
    unfold is_map. rewrite K. auto.
Qed.

Lemma start_then_next_good s s0 m x :
  SP s0 -> get_m s0 m = Some x -> same5 s s0 -> mtasks s0 = upd (mtasks s) m x ->
  m_final x = None -> mterm x = 0 -> can_start x -> m_holds x = is_map x -> mc_ok s0 x ->
  closed s = false -> SP (start_then_next s m x).
Proof.
  intros HSP Hx Hsame Em Hlive Hmt Hcs Hh Hmc Hcl.
  destruct (@try_start_good s s0 m x HSP Hx Hsame Em Hlive Hmt Hcs Hh Hcl) as [A [B [C D]]].
  unfold start_then_next. destruct (try_start s m x) as [s' cont]. cbn [fst snd] in *.
  destruct cont; auto. apply spawn_next_good; auto; [congruence|].
  intros x' Hx'. rewrite (B eq_refl) in Hx'. inversion Hx'; subst x'.
  repeat split; auto. unfold mc_ok in *. cbn. rewrite C.
  destruct Hsame as [_ [_ [_ [E4 _]]]]. rewrite <- E4. auto.
Qed.
