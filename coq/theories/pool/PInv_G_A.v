(** Frame facts for the pool-task functions. *)
From TP Require Export PInv_G_Rel.

Definition isS {A} (o : option A) : bool := match o with Some _ => true | None => false end.

Lemma tref_done_put_p s t x c :
  tref_done (put_p s t x) c =
  match c with
  | TP u => if Nat.eqb t u then (if Nat.ltb t (length (ptasks s)) then isS (p_final x) else false)
            else tref_done s c
  | _ => tref_done s c
  end.
Proof.
  destruct c as [u|u|u]; try reflexivity.
  unfold tref_done, tref_final, get_p, put_p. cbn [ptasks set_ptasks]. rewrite nth_error_upd.
  destruct (Nat.eqb t u); auto. destruct (Nat.ltb t (length (ptasks s))); auto.
Qed.

Lemma tref_done_put_m s m x c :
  tref_done (put_m s m x) c =
  match c with
  | TM u => if Nat.eqb m u then (if Nat.ltb m (length (mtasks s)) then isS (m_final x) else false)
            else tref_done s c
  | _ => tref_done s c
  end.
Proof.
  destruct c as [u|u|u]; try reflexivity.
  unfold tref_done, tref_final, get_m, put_m. cbn [mtasks set_mtasks]. rewrite nth_error_upd.
  destruct (Nat.eqb m u); auto. destruct (Nat.ltb m (length (mtasks s))); auto.
Qed.

Lemma tref_done_get_p s t x : get_p s t = Some x -> tref_done s (TP t) = isS (p_final x).
Proof. unfold tref_done, tref_final. intros ->. destruct (p_final x); auto. Qed.

Lemma tref_done_get_m s m x : get_m s m = Some x -> tref_done s (TM m) = isS (m_final x).
Proof. unfold tref_done, tref_final. intros ->. destruct (m_final x); auto. Qed.

Lemma get_p_lt s t x : get_p s t = Some x -> Nat.ltb t (length (ptasks s)) = true.
Proof. intros H. apply Nat.ltb_lt. eapply nth_error_lt; eauto. Qed.

Lemma get_m_lt s t x : get_m s t = Some x -> Nat.ltb t (length (mtasks s)) = true.
Proof. intros H. apply Nat.ltb_lt. eapply nth_error_lt; eauto. Qed.

(** [put_p] of a record with the same outcome is neutral *)
Lemma put_p_rel m s t x0 x :
  get_p s t = Some x0 -> p_final x = p_final x0 -> rel m s (put_p s t x).
Proof.
  intros H E. constructor; [reflexivity| |apply mev_same; reflexivity].
  apply gvF_neutral_done; [reflexivity| |intros; reflexivity].
  intros c. rewrite tref_done_put_p. destruct c as [u|u|u]; auto.
  destruct (Nat.eqb_spec t u) as [->|]; auto.
  rewrite (get_p_lt _ _ _ H), E. symmetry. apply tref_done_get_p; auto.
Qed.

(** [put_m]: effect on the spawner table *)
Lemma get_m_put_m s m x k :
  get_m (put_m s m x) k =
  if Nat.eqb m k then (if Nat.ltb m (length (mtasks s)) then Some x else None) else get_m s k.
Proof. unfold get_m, put_m. cbn [mtasks set_mtasks]. apply nth_error_upd. Qed.

Lemma get_p_put_p s t x k :
  get_p (put_p s t x) k =
  if Nat.eqb t k then (if Nat.ltb t (length (ptasks s)) then Some x else None) else get_p s k.
Proof. unfold get_p, put_p. cbn [ptasks set_ptasks]. apply nth_error_upd. Qed.

Lemma get_d_put_d s t x k :
  get_d (put_d s t x) k =
  if Nat.eqb t k then (if Nat.ltb t (length (dtasks s)) then Some x else None) else get_d s k.
Proof. unfold get_d, put_d. cbn [dtasks set_dtasks]. apply nth_error_upd. Qed.

(** waking a waiter *)
Lemma put_m_wake_rel mm s m x :
  get_m s m = Some x -> m_fw x = Some FPending ->
  rel mm s (put_m s m (set_m_fw x (Some FOk))).
Proof.
  intros H E. constructor; [reflexivity| |].
  - apply gvF_neutral_done; [reflexivity| |intros; reflexivity].
    intros c. rewrite tref_done_put_m. destruct c as [u|u|u]; auto.
    destruct (Nat.eqb_spec m u) as [->|]; auto.
    rewrite (get_m_lt _ _ _ H). cbn. symmetry. apply tref_done_get_m; auto.
  - constructor; [unfold put_m; cbn; apply upd_length|].
    intros k y Hk. rewrite get_m_put_m. destruct (Nat.eqb_spec m k) as [->|].
    + rewrite (get_m_lt _ _ _ H). rewrite H in Hk. inversion Hk; subst y.
      eexists; split; [reflexivity|]. split.
      * unfold mkeep; cbn. repeat split; auto.
      * intros _. unfold mwk; cbn. repeat split; auto.
    + exists y. split; auto. split; [apply mkeep_refl|intros _; apply mwk_refl].
Qed.

(** ** relA: summary for pool-task functions *)
Definition ctl_ok (s s' : state) : Prop := forall k, ctl s' = CUser (TM k) -> ctl s = CUser (TM k).

Record relA (s s' : state) : Prop := {
  a_rel : rel None s s';
  a_regs : regs_sub s s';
  a_ctl : ctl_ok s s'
}.

Lemma relA_refl s : relA s s.
Proof. constructor; [apply rel_refl|intros t H; exact H|intros k H; exact H]. Qed.

Lemma relA_trans s1 s2 s3 : relA s1 s2 -> relA s2 s3 -> relA s1 s3.
Proof.
  intros [A1 A2 A3] [B1 B2 B3]. constructor.
  - eapply rel_trans; eauto.
  - intros t H. auto.
  - intros k H. auto.
Qed.

Lemma relA_neutral s s' :
  vS s' = vS s -> ptasks s' = ptasks s -> mtasks s' = mtasks s ->
  (forall d c, In (HG d c) (ready s') <-> In (HG d c) (ready s)) ->
  regs s' = regs s -> ctl_ok s s' -> relA s s'.
Proof.
  intros Hv Hp Hm Hr Hg Hc. constructor; auto.
  - apply rel_neutral; auto.
  - intros t. rewrite Hg. auto.
Qed.

Ltac neutral :=
  apply relA_neutral;
  [reflexivity|reflexivity|reflexivity|intros; reflexivity|reflexivity|
   try (intros ? HH; exact HH); try (intros ? HH; discriminate HH)].

Lemma sched_ht_relA s r : relA s (sched s (HT r)).
Proof.
  destruct (sched_form s (HT r)) as [l E].
  apply relA_neutral; try (rewrite E; reflexivity).
  - intros d c. rewrite sched_ready_In. split; auto. intros [H|H]; auto. discriminate.
  - intros k. rewrite E. auto.
Qed.

Lemma emit_relA s e : relA s (emit s e).
Proof. unfold emit. neutral. Qed.

Lemma set_ctl_relA s c : (forall k, c <> CUser (TM k)) -> relA s (set_ctl s c).
Proof. intros H. neutral. intros k HH. cbn in HH. destruct (H _ HH). Qed.

Lemma put_p_relA s t x0 x :
  get_p s t = Some x0 -> p_final x = p_final x0 -> relA s (put_p s t x).
Proof.
  intros H E. constructor.
  - eapply put_p_rel; eauto.
  - intros u Hu. exact Hu.
  - intros k Hk. exact Hk.
Qed.

(** *** semaphore *)
Lemma first_pending_spec s l m :
  first_pending s l = Some m -> fut_pending (m_fw_of s m) = true.
Proof.
  induction l as [|h t IH]; simpl; [discriminate|].
  destruct (fut_pending (m_fw_of s h)) eqn:E; auto. intros HH; inversion HH; subst; auto.
Qed.

Lemma fut_pending_true f : fut_pending f = true -> f = Some FPending.
Proof. destruct f as [[]|]; simpl; congruence. Qed.

Lemma wake_next_relA s : relA s (wake_next s).
Proof.
  unfold wake_next. destruct (first_pending s (sem_waiters s)) as [m|] eqn:E; [|apply relA_refl].
  apply first_pending_spec in E. unfold m_fw_of in E.
  destruct (get_m s m) as [x|] eqn:G; [|apply relA_refl].
  apply fut_pending_true in E.
  eapply relA_trans; [|apply sched_ht_relA].
  eapply relA_trans with (s2 := set_sem_value s (ninf_pred (sem_value s))); [neutral|].
  constructor.
  - apply put_m_wake_rel; auto.
  - intros t H; exact H.
  - intros k H; exact H.
Qed.

Lemma sem_release_relA s : relA s (sem_release s).
Proof.
  unfold sem_release. eapply relA_trans; [|apply wake_next_relA]. neutral.
Qed.

Lemma ptasks_sched s h : ptasks (sched s h) = ptasks s.
Proof. destruct (sched_form s h) as [l E]. rewrite E. reflexivity. Qed.

Lemma ptasks_wake_next s : ptasks (wake_next s) = ptasks s.
Proof.
  unfold wake_next. destruct (first_pending s (sem_waiters s)); auto.
  destruct (get_m s n); auto. rewrite ptasks_sched. reflexivity.
Qed.

Lemma ptasks_sem_release s : ptasks (sem_release s) = ptasks s.
Proof. unfold sem_release. rewrite ptasks_wake_next. reflexivity. Qed.

Lemma put_m_mapval_rel mm s m x v :
  get_m s m = Some x -> rel mm s (put_m s m (set_m_mapval x v)).
Proof.
  intros H. constructor; [reflexivity| |].
  - apply gvF_neutral_done; [reflexivity| |intros; reflexivity].
    intros c. rewrite tref_done_put_m. destruct c as [u|u|u]; auto.
    destruct (Nat.eqb_spec m u) as [->|]; auto.
    rewrite (get_m_lt _ _ _ H). cbn. symmetry. apply tref_done_get_m; auto.
  - constructor; [unfold put_m; cbn; apply upd_length|].
    intros k y Hk. rewrite get_m_put_m. destruct (Nat.eqb_spec m k) as [->|].
    + rewrite (get_m_lt _ _ _ H). rewrite H in Hk. inversion Hk; subst y.
      eexists; split; [reflexivity|]. split.
      * unfold mkeep; cbn. repeat split; auto.
      * intros _. unfold mwk; cbn. repeat split; auto.
    + exists y. split; auto. split; [apply mkeep_refl|intros _; apply mwk_refl].
Qed.

Lemma map_release_relA s m : relA s (map_release s m).
Proof.
  unfold map_release. destruct (get_m s m) as [x|] eqn:G; [|apply relA_refl].
  assert (D : relA s (put_m s m (set_m_mapval x (S (m_mapval x))))).
  { constructor; [apply put_m_mapval_rel; auto|intros t H; exact H|intros k H; exact H]. }
  destruct (m_pc x); auto. destruct (m_fw x) as [[]|] eqn:F; auto.
  eapply relA_trans; [|apply sched_ht_relA].
  constructor; [apply put_m_wake_rel; auto|intros t H; exact H|intros k H; exact H].
Qed.

Lemma ptasks_map_release s m : ptasks (map_release s m) = ptasks s.
Proof.
  unfold map_release. destruct (get_m s m); auto. destruct (m_pc m0); auto.
  destruct (m_fw m0) as [[]|]; auto. rewrite ptasks_sched. reflexivity.
Qed.

(** *** finishing a task: generic lemma *)
Lemma finish_gvF s s1 r :
  vS s1 = vS s -> tref_done s r = false -> tref_done s1 r = true ->
  (forall c, c <> r -> tref_done s1 c = tref_done s c) ->
  ready s1 = ready s ->
  gvF s (set_ctl (sched_cbs s1 r) CIdle).
Proof.
  intros Hv H0 H1 Hoth Hr.
  apply vS_inv in Hv. destruct Hv as [_ [_ [_ [Hd _]]]].
  destruct (sched_cbs_form s1 r) as [l E].
  assert (TD : forall c, tref_done (set_ctl (sched_cbs s1 r) CIdle) c = tref_done s1 c).
  { intros c. rewrite E. apply tref_done_eq; reflexivity. }
  constructor.
  - rewrite E. cbn. exact Hd.
  - intros c Hc. rewrite TD. destruct (tref_eqb_spec c r) as [->|Hne]; auto.
    rewrite Hoth; auto.
  - intros d c. rewrite TD.
    change (ready (set_ctl (sched_cbs s1 r) CIdle)) with (ready (sched_cbs s1 r)).
    rewrite sched_cbs_In, Hr, Hd. split.
    + intros [H|H]; auto. right.
      destruct (cbs_of_In _ _ _ _ H) as [d' [x [Eq _]]]. inversion Eq; subst. auto.
    + intros [H|[Ha [Hb Hc]]]; auto. right.
      destruct (tref_eqb_spec c r) as [->|Hne]; auto.
      rewrite Hoth in Hb; auto. congruence.
Qed.

Lemma finish_p_relA s t x0 x :
  get_p s t = Some x0 -> p_final x0 = None -> relA s (finish_p s t x).
Proof.
  intros H E. unfold finish_p.
  set (x' := set_p_final _ _).
  destruct (sched_cbs_form (put_p s t x') (TP t)) as [l EL].
  constructor.
  - constructor.
    + rewrite EL. reflexivity.
    + apply finish_gvF; try reflexivity.
      * rewrite (tref_done_get_p _ _ _ H), E. reflexivity.
      * rewrite tref_done_put_p, Nat.eqb_refl, (get_p_lt _ _ _ H). reflexivity.
      * intros c Hne. rewrite tref_done_put_p. destruct c as [u|u|u]; auto.
        destruct (Nat.eqb_spec t u); auto. congruence.
    + apply mev_same. rewrite EL. reflexivity.
  - intros u. rewrite EL. auto.
  - intros k. rewrite EL. cbn. discriminate.
Qed.

Lemma suspend_p_relA s t x0 x pc :
  get_p s t = Some x0 -> p_final x = p_final x0 -> relA s (suspend_p s t x pc).
Proof.
  intros H E. unfold suspend_p. destruct (p_mc x).
  - eapply relA_trans; [|apply set_ctl_relA; discriminate].
    eapply relA_trans; [|apply sched_ht_relA].
    eapply put_p_relA; eauto.
  - eapply relA_trans; [|apply set_ctl_relA; discriminate].
    eapply put_p_relA; eauto.
Qed.

(** *** [_task_ending] / [_task_cancellation] *)
Definition ee_rest (s2 : state) (t : nat) (x : ptask) : state :=
  let s3 := sem_release s2 in
  let x := set_p_nrel x (S (p_nrel x)) in
  let s4 := if p_ismap x then map_release s3 (p_req x) else s3 in
  match p_ecb x with
  | CbNone => finish_p s4 t x
  | _ =>
      set_ctl (emit (put_p s4 t (set_p_pc (set_p_necb x (S (p_necb x))) PUEndCb))
                    (EvCbBegin KEnd t (classify s4 t)))
              (CUser (TP t))
  end.

Lemma enter_end_unfold s t x :
  enter_end s t x =
  if mem t (t_running s)
  then ee_rest (set_t_ended (set_t_running s (remove1 t (t_running s))) (dict_add (t_ended s) t)) t x
  else if mem t (t_cancelled s)
  then ee_rest (set_t_ended (set_t_cancelled s (remove1 t (t_cancelled s))) (dict_add (t_ended s) t)) t x
  else finish_p s t (set_p_exc x (Some EKeyError)).
Proof. reflexivity. Qed.

Lemma ee_rest_relA s t x0 x :
  get_p s t = Some x0 -> p_final x0 = None -> p_final x = None -> relA s (ee_rest s t x).
Proof.
  intros H E Ex. unfold ee_rest.
  set (s3 := sem_release s).
  set (xr := set_p_nrel x (S (p_nrel x))).
  set (s4 := if p_ismap xr then map_release s3 (p_req xr) else s3).
  assert (R4 : relA s s4).
  { eapply relA_trans; [apply sem_release_relA|]. fold s3. subst s4.
    destruct (p_ismap xr); [apply map_release_relA|apply relA_refl]. }
  assert (G4 : get_p s4 t = Some x0).
  { unfold get_p. subst s4. destruct (p_ismap xr).
    - rewrite ptasks_map_release. subst s3. rewrite ptasks_sem_release. exact H.
    - subst s3. rewrite ptasks_sem_release. exact H. }
  eapply relA_trans; [exact R4|].
  destruct (p_ecb xr).
  - eapply finish_p_relA; eauto.
  - eapply relA_trans; [|apply set_ctl_relA; discriminate].
    eapply relA_trans; [|apply emit_relA].
    eapply put_p_relA; eauto. cbn. congruence.
  - eapply relA_trans; [|apply set_ctl_relA; discriminate].
    eapply relA_trans; [|apply emit_relA].
    eapply put_p_relA; eauto. cbn. congruence.
Qed.

Lemma enter_end_relA s t x0 x :
  get_p s t = Some x0 -> p_final x0 = None -> p_final x = None -> relA s (enter_end s t x).
Proof.
  intros H E Ex. rewrite enter_end_unfold.
  destruct (mem t (t_running s)) eqn:M1; [|destruct (mem t (t_cancelled s)) eqn:M2].
  - eapply relA_trans; [|eapply ee_rest_relA; eauto].
    apply mem_In in M1. constructor.
    + apply rel_neutral; reflexivity.
    + intros u. unfold regs. cbn. rewrite !in_app_iff, dict_add_In.
      intros [Hu|[Hu|[Hu| ->]]]; auto. left. eapply In_remove1; eauto.
    + intros k Hk. exact Hk.
  - eapply relA_trans; [|eapply ee_rest_relA; eauto].
    apply mem_In in M2. constructor.
    + apply rel_neutral; reflexivity.
    + intros u. unfold regs. cbn. rewrite !in_app_iff, dict_add_In.
      intros [Hu|[Hu|[Hu| ->]]]; auto. right; left. eapply In_remove1; eauto.
    + intros k Hk. exact Hk.
  - eapply finish_p_relA; eauto.
Qed.

Lemma enter_cancel_relA s t x0 x :
  get_p s t = Some x0 -> p_final x0 = None -> p_final x = None -> relA s (enter_cancel s t x).
Proof.
  intros H E Ex. unfold enter_cancel.
  destruct (mem t (t_running s)) eqn:M1.
  - apply mem_In in M1.
    set (s1 := set_t_cancelled _ _).
    assert (R1 : relA s s1).
    { constructor.
      + apply rel_neutral; reflexivity.
      + intros u. unfold regs. subst s1. cbn. rewrite !in_app_iff, dict_add_In.
        intros [Hu|[[Hu| ->]|Hu]]; auto. left. eapply In_remove1; eauto.
      + intros k Hk. exact Hk. }
    eapply relA_trans; [exact R1|].
    destruct (p_ccb x).
    + eapply enter_end_relA; eauto.
    + eapply relA_trans; [|apply set_ctl_relA; discriminate].
      eapply relA_trans; [|apply emit_relA].
      eapply put_p_relA; [exact H|]. cbn. congruence.
    + eapply relA_trans; [|apply set_ctl_relA; discriminate].
      eapply relA_trans; [|apply emit_relA].
      eapply put_p_relA; [exact H|]. cbn. congruence.
  - eapply enter_end_relA; eauto.
Qed.

Lemma p_final_cb_raise x r st t : p_final (cb_raise x r st t) = p_final x.
Proof. unfold cb_raise. destruct r; reflexivity. Qed.

Ltac relA_step :=
  match goal with
  | |- relA ?s ?s => apply relA_refl
  | |- relA ?s (enter_end (emit ?s ?e) _ _) => eapply relA_trans; [apply (emit_relA s e)|]
  | |- relA ?s (enter_cancel (emit ?s ?e) _ _) => eapply relA_trans; [apply (emit_relA s e)|]
  | |- relA ?s (finish_p (emit ?s ?e) _ _) => eapply relA_trans; [apply (emit_relA s e)|]
  | |- relA _ (enter_end _ _ _) =>
      eapply enter_end_relA; [eassumption|assumption|cbn; rewrite ?p_final_cb_raise; assumption]
  | |- relA _ (enter_cancel _ _ _) =>
      eapply enter_cancel_relA; [eassumption|assumption|cbn; rewrite ?p_final_cb_raise; assumption]
  | |- relA _ (finish_p _ _ _) => eapply finish_p_relA; [eassumption|assumption]
  | |- relA _ (suspend_p _ _ _ _) => eapply suspend_p_relA; [eassumption|cbn; reflexivity]
  end.

Lemma continue_p_relA s t :
  (forall x, get_p s t = Some x -> p_pc x <> PDone -> p_final x = None) ->
  relA s (continue_p s t).
Proof.
  intros HF. unfold continue_p. destruct (get_p s t) as [x|] eqn:G; [|apply relA_refl].
  specialize (HF x eq_refl).
  destruct (p_pc x) eqn:PC; try apply relA_refl;
    (assert (E : p_final x = None) by (apply HF; discriminate)); clear HF.
  - destruct (w_first (p_w x)); repeat relA_step.
  - destruct (p_fin x); repeat relA_step.
  - destruct (w_cancel (p_w x)); repeat relA_step.
  - destruct (p_ccb x) as [|r|sl r]; [| |destruct sl]; repeat relA_step.
  - destruct (p_ecb x) as [|r|sl r]; [| |destruct sl]; repeat relA_step.
Qed.

Lemma run_p_relA s t :
  (forall x, get_p s t = Some x -> p_pc x <> PDone -> p_final x = None) ->
  relA s (run_p s t).
Proof.
  intros HF. unfold run_p. destruct (get_p s t) as [x|] eqn:G; [|apply relA_refl].
  specialize (HF x eq_refl).
  destruct (p_pc x) eqn:PC; try apply relA_refl;
    (assert (E : p_final x = None) by (apply HF; discriminate)); clear HF.
  - destruct (task_input (p_mc x) (p_fw x)).
    + cbn [p_unst set_p_mc set_p_fw]. destruct (p_unst x).
      * eapply relA_trans; [|apply set_ctl_relA; discriminate].
        eapply relA_trans; [|apply emit_relA].
        eapply put_p_relA; [exact G|]. cbn. congruence.
      * eapply relA_trans; [|apply set_ctl_relA; discriminate].
        eapply relA_trans; [|apply emit_relA].
        eapply put_p_relA; [exact G|]. cbn. congruence.
      * repeat relA_step.
    + repeat relA_step.
    + repeat relA_step.
  - destruct (task_input (p_mc x) (p_fw x)).
    + eapply relA_trans; [|apply set_ctl_relA; discriminate].
      eapply put_p_relA; [exact G|]. cbn. congruence.
    + eapply relA_trans; [|apply set_ctl_relA; discriminate].
      eapply relA_trans; [|apply emit_relA].
      eapply put_p_relA; [exact G|]. cbn. congruence.
    + eapply relA_trans; [|apply set_ctl_relA; discriminate].
      eapply relA_trans; [|apply emit_relA].
      eapply put_p_relA; [exact G|]. cbn. congruence.
  - destruct (task_input (p_mc x) (p_fw x)); repeat relA_step.
  - destruct (task_input (p_mc x) (p_fw x)); repeat relA_step.
Qed.

(** *** cancelling pool tasks *)
Lemma cancel_p_relA s t : relA s (cancel_p s t).
Proof.
  unfold cancel_p. destruct (get_p s t) as [x|] eqn:G; [|apply relA_refl].
  destruct (p_unst x).
  - destruct (p_final x) eqn:F; [apply relA_refl|].
    set (s1 := if is_current s (TP t) && final_segment x then set_taint_self s true else s).
    assert (R1 : relA s s1).
    { subst s1. destruct (is_current s (TP t) && final_segment x); [neutral|apply relA_refl]. }
    assert (G1 : get_p s1 t = Some x).
    { subst s1. destruct (is_current s (TP t) && final_segment x); exact G. }
    eapply relA_trans; [exact R1|].
    destruct (fut_pending (p_fw x)).
    + eapply relA_trans; [|apply sched_ht_relA]. eapply put_p_relA; [exact G1|reflexivity].
    + eapply put_p_relA; [exact G1|reflexivity].
  - eapply put_p_relA; [exact G|reflexivity].
  - eapply put_p_relA; [exact G|reflexivity].
Qed.

Lemma fold_relA {A} (f : state -> A -> state) :
  (forall s a, relA s (f s a)) -> forall l s, relA s (fold_left f l s).
Proof.
  intros Hf. induction l as [|h t IH]; simpl; intros s; [apply relA_refl|].
  eapply relA_trans; [apply Hf|apply IH].
Qed.

Lemma do_cancel_relA s ids : relA s (do_cancel s ids).
Proof.
  unfold do_cancel. destruct (first_lookup_err s ids); [neutral|].
  apply fold_relA. apply cancel_p_relA.
Qed.
