(** Monitor soundness, C10 — the model side of the [EvStart] clause, part 2: a worker that starts
    is in the register of the group its request carries, if that group is live. *)
From TP Require Import PInv PInv_Q PRun PWF.
From TP Require Import PInv_P PMonSound10_gmdef PMonSound10_gmp PMonSound10_gms PMonSound10_ev.

(** ** the worker that starts is in its group's register *)
Theorem start_in_group s l t r el :
  WF s -> Extra_P s -> GMx s -> In (EvStart t r el) (evs (step s l)) ->
  forall y' ids, get_m (step s l) r = Some y' ->
                 glookup (m_group y') (groups (step s l)) = Some ids -> In t ids.
Proof.
  intros W EP [G _] Hin y' ids Hy' Hl.
  destruct (start_origin s l t r el W EP Hin) as (-> & Hen & x0 & Hx0 & Hpc & Hun & Hr).
  assert (Hs : stb x0 = true).
  { unfold stb. rewrite Hpc. destruct (p_unst x0) eqn:Eu; [exfalso|reflexivity|exfalso].
    - apply (proj2 (I2_unst _ (wf2 _ W) t x0 Hx0) Hpc). exact Eu.
    - apply Hun. reflexivity. }
  destruct (G t x0 Hx0 Hs) as (y & ids0 & Hy & Hl0 & Hi0). rewrite Hr in Hy.
  (* the frame of this step *)
  unfold step in Hy', Hl. fold (pre s) in Hy', Hl. rewrite Hen in Hy', Hl.
  cbn [negb run_handle] in Hy', Hl.
  pose proof (eqf_unsched (HT (TP t)) (eqf_reset s)) as Hb. fold (pre s) in Hb.
  set (sb := unsched (pre s) (HT (TP t))) in *.
  pose proof (SP_of_WF W Hb) as HSP.
  assert (good2 sb (run_p sb t)) as [_ Hw].
  { apply run_p_good; [apply HSP|eapply waiters_pool_of_WF; eauto|eapply counts_all_of_WF; eauto]. }
  rewrite (ws_g Hw), (ef_g Hb) in Hl.
  assert (Hyb : get_m sb r = Some y) by (rewrite (eqf_get_m r Hb); exact Hy).
  unfold get_m in Hyb, Hy'.
  destruct (Forall2_nth_l (ws_m Hw) Hyb) as (y2 & Hy2 & ((_ & Eg & _) & _)).
  assert (y2 = y') by congruence. subst y2.
  rewrite Eg in Hl. congruence.
Qed.
