(** Concrete runs used as non-vacuity witnesses of the property theorems (by [vm_compute]). *)
From TP Require Export PSpecStep.

Definition w_sp : wspec := {| w_first := WSuspend; w_cancel := WPropagate |}.
Definition cfg2 : config :=
  {| cf_size := Fin 2; cf_kind := KTask; cf_bad := []; cf_w := w_sp; cf_ecb := CbNone;
     cf_ccb := CbNone |}.
Definition cfgS : config :=
  {| cf_size := Fin 3; cf_kind := KSimple; cf_bad := []; cf_w := w_sp; cf_ecb := CbSync false;
     cf_ccb := CbSync false |}.

(** apply(num=3) on a size-2 pool: two workers at their gates, the spawner waits for room, the
    loop is idle *)
Definition tr_full : list label :=
  [ LOp (OpApply 3 [] false w_sp (CbSync false) (CbAsync true false) None);
    LRun (HT (TM 0)); LRun (HT (TP 0)); LGo; LRun (HT (TP 1)); LGo ].

(** ... then task 0 is cancelled, runs its (slow, async) cancel callback, ends; the third task is
    created; a flush forgets task 0 *)
Definition tr_cancel : list label :=
  tr_full ++
  [ LOp (OpCancel [0]); LRun (HT (TP 0)); LGo; LGo; LOp (OpReleaseCb 0); LRun (HT (TP 0)); LGo;
    LRun (HT (TM 0)); LOp (OpDriver (DFlush false)); LRun (HT (TD 0)) ].

(** a map over four elements (one bad) with num_concurrent = 1 on a size-2 pool *)
Definition el (b : bool) : elem := {| e_bad := b; e_w := w_sp |}.
Definition tr_map : list label :=
  [ LOp (OpMap 0 [el false; el true; el false; el false] 1 false CbNone CbNone (Some (GUser 1)));
    LRun (HT (TM 0)); LGo; LGo; LGo; LRun (HT (TP 0)); LGo ].

(** SimpleTaskPool: start(3), all three at their gates, stop(2) *)
Definition tr_simple : list label :=
  [ LOp (OpStart 3); LRun (HT (TM 0)); LRun (HT (TP 0)); LGo; LRun (HT (TP 1)); LGo;
    LRun (HT (TP 2)); LGo; LOp (OpStop (Some 2)) ].

(** gather_and_close with work outstanding, then everything finishes *)
Definition tr_close : list label :=
  tr_full ++
  [ LOp (OpDriver (DGatherClose false)); LRun (HT (TD 0)); LOp (OpDriver DUntilClosed);
    LRun (HT (TD 1));
    LOp (OpFinish 0 FinReturn); LRun (HT (TP 0)); LGo; LGo; LRun (HT (TM 0));
    LOp (OpFinish 1 FinReturn); LRun (HT (TP 1)); LGo; LGo; LRun (HT (TP 2)); LGo;
    LOp (OpFinish 2 FinReturn); LRun (HT (TP 2)); LGo; LGo;
    LRun (HG 0 (TM 0)); LRun (HT (TD 0)); LRun (HT (TD 1)) ].

Example tr_full_state :
  let s := run cfg2 tr_full in
  clean s /\ taint_size s = false /\ length (t_running s) = 2 /\ sem_locked s = true /\
  ready s = [] /\ ctl s = CIdle /\ sem_waiters s = [0].
Proof. vm_compute. repeat split; reflexivity. Qed.

Example tr_cancel_state :
  let s := run cfg2 tr_cancel in
  clean s /\ taint_self s = false /\ t_running s = [1; 2] /\ t_ended s = [] /\ n_forgotten s = 1 /\
  num_started s = 3.
Proof. vm_compute. repeat split; reflexivity. Qed.

Example tr_map_state :
  let s := run cfg2 tr_map in
  clean s /\ t_running s = [0] /\ map m_idx (mtasks s) = [2] /\ map m_pc (mtasks s) = [MWaitMap].
Proof. vm_compute. repeat split; reflexivity. Qed.

Example tr_simple_state :
  let s := run cfgS tr_simple in
  clean s /\ res s = RIds [2; 1] /\ t_running s = [0; 1; 2].
Proof. vm_compute. repeat split; reflexivity. Qed.

Example tr_close_state :
  let s := run cfg2 tr_close in
  clean s /\ closed s = true /\ regs s = [] /\
  map d_final (dtasks s) = [Some OResult; Some OResult].
Proof. vm_compute. repeat split; reflexivity. Qed.
