(** Monitor soundness, C09 — the tracker side: the clauses of property 9 come from the label part
    only ([lcl9]); [k_closed] is raised exactly by an [EvDriverDone d OResult] of a driver the
    tracker filed as a gather_and_close. *)
From TP Require Import PMon PMonSound_trk PMonSound_gen PMonSound_C13_trk.

(** ** the clauses of property 9 of a spawn request *)
Definition sp9 (k : trk) (o : obs) (first noncoro nc_bad : bool) (g : option gname)
  : list clause :=
  let p := prev_or k o in
  let exp := if first then None else expected_spawn_err k p noncoro nc_bad g in
  match o_res o with
  | RName n => fails (match exp with None => true | Some _ => false end) C09_error_class
  | RErr e =>
      fails (if first then true
             else match exp with Some x => err_eqb x e | None => false end) C09_error_class
      ++ fails (if first then true else same_public p o) C09_no_trace
  | _ => [C09_error_class]
  end.

Lemma on_spawn_9 k o first noncoro nc_bad g meth mk :
  fp 9 (snd (on_spawn k o first noncoro nc_bad g meth mk)) = sp9 k o first noncoro nc_bad g.
Proof.
  unfold on_spawn, sp9. cbv zeta. destruct (o_res o); cbn [snd]; try reflexivity.
  - fpsimp. reflexivity.
  - fpsimp. reflexivity.
Qed.

Lemma on_spawn_closed k o first noncoro nc_bad g meth mk :
  (forall n, k_closed (mk n) = k_closed k) ->
  k_closed (fst (on_spawn k o first noncoro nc_bad g meth mk)) = k_closed k.
Proof. intros H. unfold on_spawn. destruct (o_res o); cbn [fst]; auto. Qed.

Definition lcl9 (k : trk) (o : obs) : list clause :=
  if negb (o_enabled o) then [] else
  let first := match k_prev k with None => true | Some _ => false end in
  let p := prev_or k o in
  match o_label o with
  | LOp (OpApply num bad noncoro w ecb ccb g) => sp9 k o first noncoro false g
  | LOp (OpMap stars els nc noncoro ecb ccb g) => sp9 k o first noncoro (Nat.eqb nc 0) g
  | LOp (OpStart num) => sp9 k o first false false None
  | LOp OpLock => fails (o_locked o) C09_lock_state
  | LOp OpUnlock => fails (negb (o_locked o)) C09_lock_state
  | LOp (OpSetSize None) => fails (first || same_public p o) C09_no_trace
  | _ => []
  end.

Lemma fp_filter_keep pid f l :
  (forall cl, clause_prop cl = pid -> f cl = true) -> fp pid (filter f l) = fp pid l.
Proof.
  intros H. induction l as [|a l IH]; simpl; auto.
  destruct (f a) eqn:Ef; simpl.
  - now rewrite IH.
  - destruct (Nat.eqb_spec (clause_prop a) pid) as [E|E]; auto.
    rewrite (H a E) in Ef. discriminate.
Qed.

Lemma on_label_9 c k o :
  fp 9 (snd (on_label c k o)) = lcl9 k o /\ k_closed (fst (on_label c k o)) = k_closed k.
Proof.
  unfold on_label, lcl9. destruct (negb (o_enabled o)); [split; reflexivity|]. cbv zeta.
  destruct (o_label o) as [h| |op]; try (split; reflexivity).
  destruct op.
  - split; [apply on_spawn_9|apply on_spawn_closed; reflexivity].
  - split; [apply on_spawn_9|apply on_spawn_closed; reflexivity].
  - match goal with |- context [on_spawn ?a ?b ?c ?d ?e ?f ?g ?h] =>
      pose proof (on_spawn_9 a b c d e f g h) as B;
      assert (A : k_closed (fst (on_spawn a b c d e f g h)) = k_closed k)
        by (apply on_spawn_closed; reflexivity);
      destruct (on_spawn a b c d e f g h) as [k1 cs] end.
    cbn [fst snd] in A, B. unfold sp9 in *. cbv zeta in *.
    destruct (o_res o); cbn [fst snd]; split; auto.
    rewrite fp_app, fp_fails_other by discriminate. rewrite app_nil_r.
    rewrite fp_filter_keep; [exact B|]. intros cl Hcl. destruct cl; try discriminate; reflexivity.
  - destruct (o_res o); cbn [fst snd]; split; auto; apply NCp_fp; ncp.
  - destruct (o_res o); cbn [fst snd]; split; auto; apply NCp_fp; ncp.
  - cbn [fst snd]. split; auto. apply NCp_fp. ncp.
  - destruct (o_res o); cbn [fst snd]; split; auto; apply NCp_fp; ncp.
  - destruct (o_res o); cbn [fst snd]; split; auto; apply NCp_fp; ncp.
  - cbn [fst snd]. split; auto. now rewrite fp_fails.
  - cbn [fst snd]. split; auto. now rewrite fp_fails.
  - destruct v; cbn [fst snd]; split; auto.
    + apply NCp_fp; ncp.
    + fpsimp. reflexivity.
  - cbn [fst snd]. split; auto. apply NCp_fp. ncp.
  - destruct k0; cbn [fst snd]; split; auto.
  - destruct h; cbn [fst snd]; split; auto.
  - split; reflexivity.
Qed.

(** ** events *)
Definition kinds (k : trk) : list dkind := map (fun i => fst (fst i)) (dinfo k).

Definition cev (I : list dkind) (e : event) : bool :=
  match e with
  | EvDriverDone d OResult =>
      match nth_error I d with Some (DGatherClose _) => true | _ => false end
  | _ => false
  end.

Lemma kinds_nth k d : nth_error (kinds k) d = option_map v_kind (nth_error (k_drvs k) d).
Proof.
  unfold kinds, dinfo. rewrite map_map, nth_error_map. reflexivity.
Qed.

Lemma on_event_9 k o e :
  NCp 9 (snd (on_event k o e)) /\
  k_closed (fst (on_event k o e)) = k_closed k || cev (kinds k) e.
Proof.
  destruct e as [t r el|t|t|kd t cl|kd t raised|kd t|r n|d oc]; unfold on_event;
    try (cbn [cev]; rewrite orb_false_r).
  - destruct (nth_error (k_reqs k) r) as [x|]; cbn [fst snd]; split; auto;
      try (destruct (is_map_kind (r_kind x))); ncp.
  - cbn [fst snd]. split; auto. ncp.
  - cbn [fst snd]. split; auto. ncp.
  - destruct kd; cbn [fst snd]; split; auto; ncp.
  - cbn [fst snd]. split; auto. ncp.
  - cbn [fst snd]. split; auto. ncp.
  - destruct (nth_error (k_reqs k) r) as [x|]; cbn [fst snd]; split; auto; ncp.
  - unfold cev. rewrite kinds_nth.
    destruct (nth_error (k_drvs k) d) as [v|] eqn:Ev; cbn [option_map fst snd].
    2:{ split; [ncp|]. destruct oc; now rewrite orb_false_r. }
    destruct (v_kind v) eqn:Ek; destruct oc; cbn [fst snd];
      try (destruct (k_prev k) as [p|] eqn:Ep; cbn [fst snd]);
      cbn [k_closed set_k_drvs set_k_flags k_with];
      rewrite ?orb_false_r, ?orb_true_r; (split; [ncp|reflexivity]).
Qed.

Lemma on_event_kinds k o e : kinds (fst (on_event k o e)) = kinds k.
Proof.
  pose proof (on_event_d3 k o e) as H. unfold d3 in H. injection H as H _ _.
  unfold kinds. now rewrite H.
Qed.

Lemma on_events_9 es : forall k o,
  NCp 9 (snd (on_events k o es)) /\
  k_closed (fst (on_events k o es)) = k_closed k || existsb (cev (kinds k)) es.
Proof.
  induction es as [|e es IH]; intros k o; simpl.
  - split; [apply NCp_nil|now rewrite orb_false_r].
  - pose proof (on_event_9 k o e) as [A1 A2]. pose proof (on_event_kinds k o e) as A3.
    destruct (on_event k o e) as [k1 c1]. cbn [fst snd] in *.
    pose proof (IH k1 o) as [B1 B2]. destruct (on_events k1 o es) as [k2 c2]. cbn [fst snd] in *.
    split; [now apply NCp_app|]. rewrite B2, A2, A3, orb_assoc. reflexivity.
Qed.

Lemma note_raising_closed es : forall k, k_closed (note_raising_starts k es) = k_closed k.
Proof.
  unfold note_raising_starts.
  induction es as [|e es IH]; intros k; simpl; auto.
  match goal with |- context [fold_left ?f es ?k1] => rewrite (IH k1) end.
  destruct e; auto.
  destruct (req_of k tid) as [[[r0 el0] x0]|]; auto.
  destruct (w_first _); auto.
Qed.

Lemma NC9_state_clauses c k o : NCp 9 (state_clauses c k o).
Proof.
  unfold state_clauses. cbv zeta. ncp.
  - destruct (negb (k_setsize k)); ncp.
  - apply NCp_flat_map. intros [r x]. destruct (r_kind x); ncp;
      try (destruct (group_ids o (r_group x)); ncp; destruct (r_dead x); ncp).
  - destruct (k_setsize k); ncp.
Qed.

(** ** one monitor step *)
Lemma mon_step_9 c k o :
  fp 9 (snd (mon_step c k o)) = lcl9 k o /\
  k_closed (fst (mon_step c k o)) =
    k_closed k || existsb (cev (kinds k ++ map (fun i => fst (fst i)) (dnew k o))) (o_events o).
Proof.
  unfold mon_step.
  pose proof (on_label_9 c k o) as (L1 & L2).
  pose proof (on_label_13 c k o) as ((L3 & _ & _) & _).
  destruct (on_label c k o) as [k1 c1]. cbn [fst snd] in *.
  pose proof (on_events_9 (o_events o) k1 o) as (E1 & E2).
  destruct (on_events k1 o (o_events o)) as [k2 c2]. cbn [fst snd] in *.
  pose proof (note_raising_closed (o_events o) k2) as N1.
  cbn [fst snd]. split.
  - rewrite !fp_app, L1, (NCp_fp 9 _ E1), (NCp_fp 9 _ (NC9_state_clauses c _ o)).
    cbn [app]. now rewrite app_nil_r.
  - change (k_closed (note_raising_starts k2 (o_events o)) =
            k_closed k || existsb (cev (kinds k ++ map (fun i => fst (fst i)) (dnew k o)))
                                  (o_events o)).
    rewrite N1, E2, L2. unfold kinds at 1. rewrite L3, map_app. reflexivity.
Qed.
