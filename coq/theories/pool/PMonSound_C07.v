(** Monitor soundness for C07 (partial): on the model's own observation stream (clean run) the
    monitor never reports [C07_forgotten] or [C07_unknown_no_change]; if it reports a clause of
    property 7 at all, it is [C07_no_late_start] or [C07_no_late_pull] (not covered here). *)
From TP Require Import PInv PInv_P_base PInv_P_view PInv_P_step PInv_P PSpec PSpecStep
  PStep_C_ev PStep_C_run PMon PRun PWF
  PMonSound_trk PMonSound_gen PMonSound_kn PMonSound_C06_mod PMonSound_C06.

Definition allowed07 (cl : clause) : Prop := cl = C07_no_late_start \/ cl = C07_no_late_pull.

Definition A07 (l : list clause) : Prop := forall cl, In cl (fp 7 l) -> allowed07 cl.

Lemma A07_NC l : NCp 7 l -> A07 l.
Proof. intros H cl Hin. rewrite (NCp_fp 7 l H) in Hin. destruct Hin. Qed.

Lemma A07_app a b : A07 a -> A07 b -> A07 (a ++ b).
Proof. intros Ha Hb cl. rewrite fp_app, in_app_iff. intros [H|H]; auto. Qed.

Lemma A07_fails_ok b c : allowed07 c -> A07 (fails b c).
Proof.
  intros Hc cl Hin. unfold fp in Hin. apply filter_In in Hin. destruct Hin as [Hin _].
  unfold fails in Hin. destruct b; [destruct Hin|]. destruct Hin as [<-|[]]. exact Hc.
Qed.

(** ** the events and the state clauses only produce allowed clauses *)
Lemma A07_on_event k o e : A07 (snd (on_event k o e)).
Proof.
  destruct e as [t r el|t|t|kd t cl|kd t raised|kd t|r n|d oc]; unfold on_event.
  - destruct (nth_error (k_reqs k) r) as [x|]; cbn [snd]; [|apply A07_NC; ncp].
    apply A07_app; [apply A07_NC; destruct (is_map_kind (r_kind x)); ncp|].
    apply A07_app; [apply A07_fails_ok; left; reflexivity|apply A07_NC; ncp].
  - cbn [snd]. apply A07_NC. ncp.
  - cbn [snd]. apply A07_NC. ncp.
  - destruct kd; cbn [snd]; apply A07_NC; ncp.
  - cbn [snd]. apply A07_NC. ncp.
  - cbn [snd]. apply A07_NC. ncp.
  - destruct (nth_error (k_reqs k) r) as [x|]; cbn [snd]; [|apply A07_NC; ncp].
    apply A07_app; [apply A07_NC; ncp|]. apply A07_app; [apply A07_NC; ncp|].
    apply A07_fails_ok. right. reflexivity.
  - destruct (nth_error (k_drvs k) d) as [v|]; cbn [snd]; [|apply A07_NC; ncp].
    apply A07_NC.
    destruct (v_kind v); destruct oc; cbn [snd]; try (destruct (k_prev k) as [p|]; cbn [snd]); ncp.
Qed.

Lemma A07_on_events es : forall k o, A07 (snd (on_events k o es)).
Proof.
  induction es as [|e es IH]; intros k o; simpl; [intros cl []|].
  pose proof (A07_on_event k o e) as H1. destruct (on_event k o e) as [k1 c1].
  pose proof (IH k1 o) as H2. destruct (on_events k1 o es) as [k2 c2].
  simpl in *. now apply A07_app.
Qed.

Lemma NC7_state_clauses c k o : NCp 7 (state_clauses c k o).
Proof.
  unfold state_clauses. cbv zeta. ncp.
  - destruct (negb (k_setsize k)); ncp.
  - apply NCp_flat_map. intros [r x]. destruct (r_kind x); ncp;
      try (destruct (group_ids o (r_group x)); ncp; destruct (r_dead x); ncp).
  - destruct (k_setsize k); ncp.
Qed.

(** ** the label part *)
Definition lcl7 (k : trk) (o : obs) : list clause :=
  if negb (o_enabled o) then [] else
  let first := match k_prev k with None => true | Some _ => false end in
  let p := prev_or k o in
  match o_label o with
  | LOp (OpCancelGroup g) =>
      match o_res o with
      | RNone =>
          fails (negb (group_live o g)) C07_forgotten
          ++ fails (if first then false else group_live p g) C07_unknown_no_change
      | RErr e =>
          fails (err_eqb e ErrGroupNotFound && (first || negb (group_live p g)))
                C07_unknown_no_change
          ++ fails (if first then true else same_public p o) C07_unknown_no_change
      | _ => [C07_forgotten]
      end
  | LOp OpCancelAll =>
      fails (forallb (fun pg => match snd pg with None => true | Some _ => false end)
                     (o_groups o)) C07_forgotten
  | _ => []
  end.

Lemma on_spawn_NC7 k o first noncoro nc_bad g meth mk :
  NCp 7 (snd (on_spawn k o first noncoro nc_bad g meth mk)).
Proof. unfold on_spawn. destruct (o_res o); cbn [snd]; ncp. Qed.

Lemma on_label_7 c k o :
  fp 7 (snd (on_label c k o)) = lcl7 k o /\ k_prev (fst (on_label c k o)) = k_prev k.
Proof.
  unfold on_label, lcl7. destruct (negb (o_enabled o)); [split; reflexivity|]. cbv zeta.
  destruct (o_label o) as [h| |op]; try (split; reflexivity).
  destruct op.
  - split; [apply NCp_fp, on_spawn_NC7|]. unfold on_spawn. destruct (o_res o); reflexivity.
  - split; [apply NCp_fp, on_spawn_NC7|]. unfold on_spawn. destruct (o_res o); reflexivity.
  - match goal with |- context [on_spawn ?a ?b ?c ?d ?e ?f ?g ?h] =>
      pose proof (on_spawn_NC7 a b c d e f g h) as B;
      assert (A : k_prev (fst (on_spawn a b c d e f g h)) = k_prev k)
        by (unfold on_spawn; destruct (o_res o); reflexivity);
      destruct (on_spawn a b c d e f g h) as [k1 cs] end.
    cbn [fst snd] in A, B. destruct (o_res o); cbn [fst snd]; split; auto;
      try (apply NCp_fp; exact B).
    apply NCp_fp. ncp. exact B.
  - destruct (o_res o); cbn [fst snd]; split; auto; apply NCp_fp; ncp.
  - destruct (o_res o); cbn [fst snd]; split; auto.
    + rewrite fp_app, !fp_fails by reflexivity. reflexivity.
    + rewrite fp_app, !fp_fails by reflexivity. reflexivity.
  - cbn [fst snd]. split; auto. now rewrite fp_fails.
  - destruct (o_res o); cbn [fst snd]; split; auto; apply NCp_fp; ncp.
  - destruct (o_res o); cbn [fst snd]; split; auto; apply NCp_fp; ncp.
  - cbn [fst snd]. split; auto. apply NCp_fp. ncp.
  - cbn [fst snd]. split; auto. apply NCp_fp. ncp.
  - destruct v; cbn [fst snd]; split; auto; apply NCp_fp; ncp.
  - cbn [fst snd]. split; auto. apply NCp_fp. ncp.
  - destruct k0; cbn [fst snd]; split; auto.
  - destruct h; cbn [fst snd]; split; auto.
  - split; reflexivity.
Qed.

Lemma on_events_prev es : forall k o, k_prev (fst (on_events k o es)) = k_prev k.
Proof. intros k o. apply (PMonSound_C06_trk.on_events_6 es k o). Qed.

Lemma mon_step_7 c k o :
  (lcl7 k o = [] -> A07 (snd (mon_step c k o))) /\ k_prev (fst (mon_step c k o)) = Some o.
Proof.
  unfold mon_step.
  pose proof (on_label_7 c k o) as (L1 & L2).
  destruct (on_label c k o) as [k1 c1]. simpl fst in *. simpl snd in *.
  pose proof (A07_on_events (o_events o) k1 o) as E1.
  destruct (on_events k1 o (o_events o)) as [k2 c2]. simpl fst in *. simpl snd in *.
  cbn [fst snd]. split; [|reflexivity]. intros Hl.
  apply A07_app; [intros cl Hin; rewrite L1, Hl in Hin; destruct Hin|].
  apply A07_app; [exact E1|apply A07_NC, NC7_state_clauses].
Qed.

(** ** model side *)
Lemma gr_sched s h : groups (sched s h) = groups s.
Proof. unfold sched. destruct (is_ready s h); reflexivity. Qed.

Lemma gr_cancel_p s t : groups (cancel_p s t) = groups s.
Proof. unfold cancel_p. repeat (first [reflexivity | rewrite gr_sched | dmatch]). Qed.

Lemma gr_cancel_m s m : groups (cancel_m s m) = groups s.
Proof. unfold cancel_m. repeat (first [reflexivity | rewrite gr_sched | dmatch]). Qed.

Lemma gr_fold {A} (f : state -> A -> state) :
  (forall s a, groups (f s a) = groups s) -> forall l s, groups (fold_left f l s) = groups s.
Proof. intros H l. induction l; simpl; intros; auto. now rewrite IHl, H. Qed.

Lemma gr_cancel_group_body s g ids : groups (cancel_group_body s g ids) = groups s.
Proof.
  unfold cancel_group_body. rewrite gr_fold.
  - cbn [groups mark_dead set_mtasks]. unfold cancel_group_metas. destruct (glookup _ _); auto.
    cbn [groups set_meta_cancelled]. now rewrite (gr_fold _ gr_cancel_m).
  - intros s0 t. destruct (mem t (t_running s0)); auto using gr_cancel_p.
Qed.

Lemma gr_cancel_all_groups gs : forall s, groups (cancel_all_groups s gs) = groups s.
Proof.
  induction gs as [|[g ids] r IH]; simpl; intros; auto. now rewrite IH, gr_cancel_group_body.
Qed.

Lemma glookup_gremove_self g gs : NoDup (map fst gs) -> glookup g (gremove g gs) = None.
Proof.
  induction gs as [|[h v] r IH]; simpl; auto. intros Hnd. inversion Hnd; subst.
  destruct (geqb_spec g h) as [->|Hne].
  - destruct (glookup h r) as [ids|] eqn:E; auto. exfalso. apply H1.
    apply glookup_In in E. apply in_map_iff. exists (h, ids). auto.
  - simpl. destruct (geqb_spec g h); [contradiction|auto].
Qed.

Lemma same_public_incl s s' l l' en en' :
  t_running s' = t_running s -> t_cancelled s' = t_cancelled s -> t_ended s' = t_ended s ->
  sem_locked s' = sem_locked s -> locked s' = locked s -> sem_value s' = sem_value s ->
  ready s' = ready s -> groups s' = groups s -> incl (known s) (known s') -> evs s' = [] ->
  same_public (obs_of s l en) (obs_of s' l' en') = true.
Proof.
  intros a b c d e f g h i j. unfold same_public, obs_of.
  cbn [o_nr o_nc o_ne o_full o_locked o_size o_ready_empty o_events o_groups].
  rewrite a, b, c, d, e, f, g, h, j.
  rewrite !Nat.eqb_refl, !eqb_reflx, ninf_eqb_refl. cbn [andb].
  apply forallb_forall. intros [g0 v] Hin. cbn [fst snd].
  apply in_map_iff in Hin. destruct Hin as (g1 & Heq & Hin). injection Heq as <- <-.
  rewrite (glook_map (fun g => glookup g (groups s)) (known s') g1 (i g1 Hin)).
  destruct (glookup g1 (groups s)); auto.
  rewrite Nat.eqb_refl, forallb_mem_refl. reflexivity.
Qed.

Lemma known_know_incl s g : incl (known s) (known (know s g)).
Proof. intros h. apply known_know_mono. Qed.

Lemma same_public_know s g r l l' en en' :
  same_public (obs_of s l en) (obs_of (set_res (know (pre s) g) r) l' en') = true.
Proof.
  apply same_public_incl; try (unfold know; destruct (existsb _ _); reflexivity).
  apply (known_know_incl (pre s) g).
Qed.

Definition RR7 (c : config) (s : state) (k : trk) : Prop :=
  (exists tr0, s = run c tr0) /\ prev_rel c s k.

Lemma lcl7_nil c s k l :
  RR7 c s k -> clean (step s l) ->
  lcl7 k (obs_of (step s l) l (enabled (set_res (set_evs s []) RNone) l)) = [].
Proof.
  intros ((tr0 & Hs) & HP) Hc. fold (pre s).
  assert (Hcs : clean s) by (eapply clean_step_inv'; eauto).
  assert (X : WFx s) by (rewrite Hs; apply WFx_run; rewrite <- Hs; exact Hcs).
  pose proof (x_wf _ X) as W.
  assert (HK : KN s) by (rewrite Hs; apply KN_run).
  assert (HK' : KN (step s l)) by (apply KN_step; exact HK).
  pose proof (IGr_keys _ (wfgr _ W)) as Hnd.
  unfold lcl7. cbn [o_enabled o_label o_res obs_of]. destruct (negb (enabled (pre s) l)); auto.
  cbv zeta. destruct l as [h| |op]; auto. destruct op; auto.
  - (* cancel_group *)
    pose proof (cancel_group_shape s g) as Hsh.
    destruct (glookup g (groups s)) as [ids|] eqn:Hg.
    + destruct Hsh as [Est Hres]. rewrite Hres.
      assert (B1 : group_live (obs_of (step s (LOp (OpCancelGroup g))) (LOp (OpCancelGroup g)) true) g
                   = false).
      { unfold group_live. rewrite group_ids_obs by exact HK'. rewrite Est, gr_cancel_group_body.
        cbn [groups set_groups]. now rewrite glookup_gremove_self. }
      change (enabled (pre s) (LOp (OpCancelGroup g))) with true. rewrite B1. cbn [negb fails app].
      destruct HP as [[_ ->]|(lp & enp & Hp)]; [discriminate Hg|].
      unfold prev_or. rewrite Hp. unfold group_live. rewrite group_ids_obs, Hg by exact HK.
      reflexivity.
    + rewrite Hsh. cbn [res set_res err_eqb andb].
      destruct HP as [[Hp ->]|(lp & enp & Hp)]; unfold prev_or; rewrite Hp; [reflexivity|].
      unfold group_live at 1. rewrite group_ids_obs, Hg by exact HK. cbn [negb orb fails app].
      rewrite same_public_know. reflexivity.
  - (* cancel_all *)
    assert (Hgr : groups (step s (LOp OpCancelAll)) = []).
    { rewrite step_op by reflexivity. unfold do_op. now rewrite gr_cancel_all_groups. }
    cbn [o_groups obs_of]. rewrite Hgr.
    assert (B : forallb (fun pg : gname * option (list nat) =>
                  match snd pg with None => true | Some _ => false end)
                (map (fun g => (g, glookup g [])) (known (step s (LOp OpCancelAll)))) = true).
    { apply forallb_forall. intros [g v] Hin. apply in_map_iff in Hin.
      destruct Hin as (g' & [= <- <-] & _). reflexivity. }
    rewrite B. reflexivity.
Qed.

Lemma mon_step_sound7 c s k l :
  RR7 c s k -> clean (step s l) ->
  let o := obs_of (step s l) l (enabled (set_res (set_evs s []) RNone) l) in
  A07 (snd (mon_step c k o)) /\ RR7 c (step s l) (fst (mon_step c k o)).
Proof.
  intros HR Hc o. destruct (mon_step_7 c k o) as [Ha Hp]. split.
  - apply Ha. apply (lcl7_nil c s k l HR Hc).
  - destruct HR as ((tr0 & Hs) & _). split.
    + exists (tr0 ++ [l]). rewrite run_snoc, Hs. reflexivity.
    + right. eexists. eexists. exact Hp.
Qed.

Lemma mon_run_sound7 c : forall tr s k i,
  RR7 c s k -> clean (fold_left step tr s) -> allowed_run c 7 allowed07 k i (observe_from s tr).
Proof.
  induction tr as [|l tr IH]; intros s k i HR Hc j cl; simpl; [discriminate|].
  simpl in Hc.
  assert (Hc1 : clean (step s l)) by (eapply clean_fold_inv; eauto).
  destruct (mon_step_sound7 c s k l HR Hc1) as [Hf HR'].
  cbv zeta in Hf, HR'.
  destruct (mon_step c k _) as [k' cs]. simpl in Hf, HR'. unfold A07, fp in Hf.
  destruct (filter _ cs) as [|cl0 r] eqn:Ef.
  - apply IH; auto.
  - intros [= <- <-]. apply Hf. left. reflexivity.
Qed.

(** if the monitor reports a violated clause of C07 on a clean model run, it is one of the two
    clauses not covered here *)
Theorem mon_C07_sound_partial : forall c tr,
  clean (run c tr) ->
  forall j cl, mon_run c 7 (trk_init c) 0 (observe c tr) = Some (j, cl) -> allowed07 cl.
Proof.
  intros c tr Hc. apply (mon_run_sound7 c tr (init c) (trk_init c) 0); auto.
  split; [exists []; reflexivity|left; split; reflexivity].
Qed.

