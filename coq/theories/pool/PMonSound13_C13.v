(** Monitor soundness for C13 (complete): on the model's own observation stream — clean run, no
    self-cancellation from a final segment — the monitor never reports a clause of property 13.

    PMonSound_C13.v covers [C13_re_never_raises] and [C13_not_forgotten_live]; here the two
    counting clauses:
    - [C13_forgotten_finished]: [k_etotal] is exactly the number of ids ever added to [t_ended]
      (in one step the registry either gains an id or is filtered, never both — [ended_shape]),
      and from the moment a driver has taken its snapshot, the ended tasks outside the snapshot
      are at most those added since the request ([FL]);
    - [C13_inflight_kept]: the end callbacks in flight are distinct tasks ([CBv]) sitting in
      their end callback ([InvA] of PMonSound2), which are filed as ended, have no outcome and
      hence are not in the snapshot of a flush that completes normally. *)
From TP Require Import PInv PInv_R_base PInv_P_base PInv_P PSpec PSpecStep PStep_C_drv PStep_C PMon
  PRun PWF PMonSound_trk PMonSound_gen PMonSound_C06 PMonSound_C13_kd PMonSound_C13_mod
  PMonSound_C13_trk PMonSound_C13 PMonSound2_def PMonSound2_trk PMonSound2_lbl PMonSound_C02
  PMonSound13_ds PMonSound13_end PMonSound13_trk.

(** [snd i] = the value of [k_etotal] recorded when driver [d] was requested *)
Definition FL (s : state) (k : trk) : Prop :=
  (forall d i, nth_error (dinfo k) d = Some i -> snd i <= k_etotal k) /\
  (forall d i x, nth_error (dinfo k) d = Some i -> get_d s d = Some x -> d_pc x = DWaitG2 ->
     length (filter (not_in (d_snap x)) (t_ended s)) + snd i <= k_etotal k).

Definition RRc (c : config) (s : state) (k : trk) : Prop :=
  RR13 c s k /\ RR2 c s k /\ CBv (aview_of k) /\ FL s k.

Lemma RRc_init c : RRc c (init c) (trk_init c).
Proof.
  split; [apply RR13_init|]. split; [apply RR2_init|]. split.
  - split; [constructor|intros t []].
  - split.
    + intros d i H. destruct d; discriminate H.
    + intros d i x H. destruct d; discriminate H.
Qed.

(** ** tracker: the driver records and [k_etotal] across one observation *)
Lemma dinfo_step c k o : dinfo (fst (mon_step c k o)) = dinfo k ++ dnew k o.
Proof.
  destruct (mon_step_13 c k o) as (_ & (D1 & _ & _) & _ & Hd' & _). cbv zeta in *.
  pose proof (on_events_d3 (o_events o) (fst (on_label c k o)) o) as Hd3.
  unfold d3 in Hd3. injection Hd3 as E1 _ _. rewrite Hd', E1, D1. reflexivity.
Qed.

Lemma etotal_step c s k s' l en :
  prev_rel c s k ->
  k_etotal (fst (mon_step c k (obs_of s' l en))) =
  k_etotal k + (length (t_ended s') - length (t_ended s)).
Proof.
  intros HP. destruct (mon_step_13 c k (obs_of s' l en)) as (_ & _ & _ & _ & _ & _ & He).
  cbv zeta in He. rewrite He. destruct HP as [[Hp ->]|(lp & enp & Hp)]; rewrite Hp.
  - cbn. rewrite Nat.sub_0_r. reflexivity.
  - reflexivity.
Qed.

Lemma dnew_ne k o d i : nth_error (dnew k o) d = Some i -> snd i = k_etotal k.
Proof.
  unfold dnew. destruct (negb (o_enabled o)); [destruct d; discriminate|].
  destruct (o_label o) as [h| |op]; try (destruct d; discriminate).
  destruct op; try (destruct d; discriminate).
  destruct d as [|d]; simpl; [intros [= <-]; reflexivity|destruct d; discriminate].
Qed.

Lemma filter_not_in_nil snap l : incl l snap -> filter (not_in snap) l = [].
Proof.
  induction l as [|a l IH]; simpl; intros H; auto.
  assert (Ha : mem a snap = true) by (apply mem_In; apply H; left; reflexivity).
  unfold not_in at 1. rewrite Ha. simpl. apply IH. intros u Hu. apply H. right. exact Hu.
Qed.

Lemma FL_step c s k l :
  RR13 c s k -> WF s -> Extra_P s -> FL s k ->
  let o := obs_of (step s l) l (enabled (set_res (set_evs s []) RNone) l) in
  FL (step s l) (fst (mon_step c k o)).
Proof.
  intros (_ & HK & HP) W EP [F1 F2] o.
  pose proof (dinfo_step c k o) as Hdi.
  pose proof (etotal_step c s k (step s l) l (enabled (set_res (set_evs s []) RNone) l) HP) as Het.
  fold o in Het.
  assert (G1 : forall d i, nth_error (dinfo (fst (mon_step c k o))) d = Some i ->
                           snd i <= k_etotal (fst (mon_step c k o))).
  { intros d i Hi. rewrite Hdi in Hi. rewrite Het.
    destruct (Nat.lt_ge_cases d (length (dinfo k))) as [Hlt|Hge].
    - rewrite nth_error_app1 in Hi by exact Hlt. pose proof (F1 d i Hi). lia.
    - rewrite nth_error_app2 in Hi by exact Hge. apply dnew_ne in Hi. lia. }
  split; [exact G1|].
  intros d i x' Hi Hx' Hpc.
  destruct (g2_step s l d x' Hx' Hpc) as [(x & Hx & Hpcx & Hsn)|Hincl].
  - assert (Hlt : d < length (dinfo k)).
    { assert (E : length (dinfo k) = length (dtasks s)).
      { rewrite <- (map_length (fun i0 => fst (fst i0)) (dinfo k)), HK. apply map_length. }
      rewrite E. eapply get_d_lt; eauto. }
    rewrite Hdi, nth_error_app1 in Hi by exact Hlt.
    pose proof (F2 d i x Hi Hx Hpcx) as B1.
    pose proof (ended_count s l (d_snap x) W EP) as B2.
    rewrite <- Hsn, Het. lia.
  - rewrite (filter_not_in_nil _ _ Hincl). simpl. apply (G1 d i Hi).
Qed.

(** ** where a clause of property 13 comes from *)
Lemma fp13_shape c s k l cl :
  RR13 c s k -> WF s -> Extra_P s ->
  let o := obs_of (step s l) l (enabled (set_res (set_evs s []) RNone) l) in
  In cl (fp 13 (snd (mon_step c k o))) ->
  exists d oc x i,
    get_d s d = Some x /\ In (EvDriverDone d oc) (evs (step s l)) /\
    nth_error (dinfo k) d = Some i /\ fst (fst i) = d_kind x /\
    In cl (dcl13 (dinfo k) (k_cbs k) (k_prev k) (k_etotal k) o d oc).
Proof.
  intros (_ & HK & _) W EP o Hin.
  destruct (mon_step_13 c k o) as (Hf & (D1 & D2 & D3) & Hv1 & _).
  cbv zeta in *. change (o_events o) with (evs (step s l)) in *.
  rewrite Hf in Hin.
  destruct (existsb is_done (evs (step s l))) eqn:Eex.
  - apply existsb_exists in Eex. destruct Eex as (e0 & Hin0 & He0).
    destruct e0 as [| | | | | | |d oc0]; try discriminate.
    destruct (step_driver_done s l d oc0 W EP Hin0) as (-> & x & x0' & Hx & _).
    assert (Hall : forall e, In e (evs (step s (LRun (HT (TD d))))) -> is_done e = true).
    { intros e He. destruct (step_driver_events s d e W EP He) as (o' & ->). reflexivity. }
    destruct (on_events_13_done _ (fst (on_label c k o)) o Hall) as (Hcl & _).
    rewrite Hcl in Hin. unfold dcls13 in Hin. apply in_flat_map in Hin.
    destruct Hin as (e & He & Hin). destruct (step_driver_events s d e W EP He) as (oc & ->).
    assert (Hnew : dnew k o = []).
    { unfold dnew. destruct (negb (o_enabled o)); reflexivity. }
    assert (Hcb : k_cbs (fst (on_label c k o)) = k_cbs k).
    { unfold tview in Hv1. congruence. }
    rewrite D1, Hnew, app_nil_r, D2, D3, Hcb in Hin.
    pose proof Hin as Hin'. unfold dcl13 in Hin'.
    destruct (nth_error (dinfo k) d) as [[[kd q] ne]|] eqn:En; [|destruct Hin'].
    exists d, oc, x, (kd, q, ne). split; [exact Hx|]. split; [exact He|]. split; [exact En|].
    split; [|exact Hin].
    assert (E : nth_error (map (fun i => fst (fst i)) (dinfo k)) d = Some kd)
      by (rewrite nth_error_map, En; reflexivity).
    rewrite HK, nth_error_map in E. unfold get_d in Hx. rewrite Hx in E. simpl in E.
    simpl. congruence.
  - assert (Hnone : forall e, In e (evs (step s l)) -> is_done e = false).
    { intros e He. destruct (is_done e) eqn:Ed; auto.
      assert (existsb is_done (evs (step s l)) = true) by (apply existsb_exists; eauto).
      congruence. }
    destruct (on_events_13_none _ (fst (on_label c k o)) o Hnone) as (Hcl & _).
    rewrite Hcl in Hin. destruct Hin.
Qed.

Lemma ph_end_pc p : ph_of p = PhEnd -> endcb_pc p = true.
Proof. destruct p; simpl; intros H; try discriminate; reflexivity. Qed.

(** ** one observation *)
Lemma mon_step_sound13c c s k l :
  RRc c s k -> clean (step s l) -> taint_self (step s l) = false ->
  let o := obs_of (step s l) l (enabled (set_res (set_evs s []) RNone) l) in
  fp 13 (snd (mon_step c k o)) = [] /\ RRc c (step s l) (fst (mon_step c k o)).
Proof.
  intros (H13 & H2 & HCB & HFL) Hc Hts o.
  destruct (mon_step_sound13 c s k l H13 Hc Hts) as [Hall H13'].
  destruct (mon_step_sound2 c s k l H2 Hc) as [Hp2 H2'].
  cbv zeta in Hall, H13', Hp2, H2'. fold o in Hall, H13', Hp2, H2'.
  pose proof H13 as ((tr0 & Hs) & HK & HP).
  assert (Hcs : clean s) by (eapply clean_step_inv'; eauto).
  assert (X : WFx s) by (rewrite Hs; apply WFx_run; rewrite <- Hs; exact Hcs).
  pose proof (x_wf _ X) as W. pose proof (x_p _ X) as EP.
  split.
  - assert (Hno : forall cl0, ~ In cl0 (fp 13 (snd (mon_step c k o)))).
    2:{ destruct (fp 13 (snd (mon_step c k o))) as [|cl0 rest]; [reflexivity|].
        exfalso. apply (Hno cl0). left. reflexivity. }
    intros cl0 Hin0.
    pose proof (Hall cl0 Hin0) as Hal.
    destruct (fp13_shape c s k l cl0 H13 W EP Hin0) as (d & oc & x & [[kd q] ne] & Hx & Hev & En & Hkd & Hin).
    fold o in Hin. simpl in Hkd. unfold dcl13 in Hin. rewrite En in Hin.
    destruct kd as [re| |]; try (destruct Hin).
    apply in_app_iff in Hin. destruct Hin as [Hin|Hin].
    { apply In_fails in Hin. destruct Hin as [_ ->]. destruct Hal; discriminate. }
    destruct oc; try (destruct Hin).
    destruct HP as [[_ ->]|(lp & enp & Hp)].
    { unfold get_d in Hx. cbn in Hx. destruct d; discriminate. }
    rewrite Hp in Hin. cbn [o_nr o_nc o_ne obs_of] in Hin.
    apply in_app_iff in Hin. destruct Hin as [Hin|Hin].
    { apply In_fails in Hin. destruct Hin as [_ ->]. destruct Hal; discriminate. }
    assert (Hk : d_kind x = DFlush re) by congruence.
    assert (Hnw : d_pc x <> DWaitClosed).
    { intros Hpc. pose proof (x_cdrv _ X d x Hx Hpc) as Hk'. congruence. }
    destruct (flush_done2 s l d x re W EP Hnw Hx Hk Hev) as (snap & Hreg & Hcase & Hd).
    assert (Hone : o_ne o = length (t_ended (step s l))) by reflexivity.
    apply in_app_iff in Hin. destruct Hin as [Hin|Hin]; apply In_fails in Hin; destruct Hin as [Hb _].
    + (* forgotten_finished *)
      assert (Hle : Nat.leb (o_ne o + ne) (k_etotal k) = true).
      { apply Nat.leb_le. rewrite Hone, Hreg. destruct HFL as [F1 F2].
        destruct Hcase as [[Hpc ->]|Hcov].
        - pose proof (F2 d _ x En Hx Hpc) as B. simpl in B. exact B.
        - rewrite (filter_not_in_nil snap (t_ended s)) by (intros t Ht; apply Hcov; exact Ht).
          pose proof (F1 d _ En) as B. simpl in B. simpl. exact B. }
      rewrite Hle, orb_true_r in Hb. discriminate Hb.
    + (* inflight_kept *)
      assert (Hle : Nat.leb (count (fun p => cbk_eqb (snd p) KEnd) (k_cbs k)) (o_ne o) = true).
      { apply Nat.leb_le. rewrite count_ecbs, Hone.
        apply NoDup_incl_length; [exact (proj1 HCB)|].
        intros u Hu. apply In_ecbs in Hu.
        destruct H2 as (_ & TG & (_ & T & _) & _). specialize (T u). unfold st_at in T.
        destruct (get_p s u) as [y|] eqn:Hy; cbn [option_map] in T.
        - destruct T as (_ & _ & _ & _ & _ & _ & _ & H8 & _).
          cbn [aview_of a_cbs st_of s_ph] in H8. apply H8 in Hu. apply ph_end_pc in Hu.
          exact (flush_keeps_endcb s l d x re u y W EP Hnw Hx Hk Hev Hy Hu).
        - exfalso. destruct T as (_ & _ & _ & _ & T5 & _). apply (T5 KEnd). exact Hu. }
      rewrite Hle in Hb. discriminate Hb.
  - split; [exact H13'|]. split; [exact H2'|]. split.
    + apply mon_step_CB; [exact Hp2|exact HCB].
    + apply (FL_step c s k l H13 W EP HFL).
Qed.

Lemma mon_run_sound13c c : forall tr s k i,
  RRc c s k -> clean (fold_left step tr s) -> taint_self (fold_left step tr s) = false ->
  mon_run c 13 k i (observe_from s tr) = None.
Proof.
  induction tr as [|l tr IH]; intros s k i HR Hc Ht; simpl; auto.
  simpl in Hc, Ht.
  assert (Hc1 : clean (step s l)) by (eapply clean_fold_inv; eauto).
  assert (Ht1 : taint_self (step s l) = false)
    by (eapply (taint_fold_inv taint_self taint_self_step_inv'); eauto).
  destruct (mon_step_sound13c c s k l HR Hc1 Ht1) as [Hf HR'].
  cbv zeta in Hf, HR'. unfold fp in Hf.
  destruct (mon_step c k _) as [k' cs]. simpl in Hf, HR'. rewrite Hf.
  apply IH; auto.
Qed.

(** The executable monitor never reports a violated clause of property C13 on the model's own
    observation stream, for every clean run in which no worker cancels itself from its final
    segment. *)
Theorem mon_C13_sound : forall c tr,
  clean (run c tr) -> taint_self (run c tr) = false -> PMon.ok_C13 c (PObs.observe c tr) = true.
Proof.
  intros c tr Hc Ht. unfold ok_C13, ok_prop, observe.
  rewrite (mon_run_sound13c c tr (init c) (trk_init c) 0); auto. apply RRc_init.
Qed.
