(** API operations. *)
From TP Require Export PInv_Q_ptask.
Set Implicit Arguments. Unset Strict Implicit.

Definition simple_op (o : op) : bool :=
  match o with
  | OpApply _ _ _ _ _ _ _ | OpMap _ _ _ _ _ _ _ | OpStart _ | OpCancelGroup _ | OpCancelAll => false
  | _ => true
  end.

Lemma fold_know_fields gs s :
  ptasks (fold_left know gs s) = ptasks s /\ mtasks (fold_left know gs s) = mtasks s /\
  groups (fold_left know gs s) = groups s /\ num_started (fold_left know gs s) = num_started s /\
  taint_iter (fold_left know gs s) = taint_iter s.
Proof.
  revert s; induction gs as [|g t IH]; intros s; simpl; auto 10.
  destruct (IH (know s g)) as [A [B [C [D E]]]]. rewrite A, B, C, D, E. autorewrite with fr. auto 10.
Qed.

Lemma do_op_simple s o : simple_op o = true -> ssim s (do_op s o).
Proof.
  destruct o; simpl; try discriminate; intros _.
  - apply do_cancel_ssim.
  - eapply ssim_trans; [apply do_cancel_ssim|].
    destruct (res (do_cancel s _)); try apply ssim_refl; ssim_fin.
  - eapply ssim_trans; [apply do_cancel_ssim|].
    destruct (res (do_cancel s _)); try apply ssim_refl; ssim_fin.
  - ssim_fin.
  - destruct (0 <? n_gac s); ssim_fin.
  - destruct v; ssim_fin.
  - destruct (fold_know_fields gs s) as [A [B [C [D E]]]]. apply ssim_ceq; cbn; auto.
  - apply ssim_ceq; autorewrite with fr; cbn; auto; destruct k; reflexivity.
  - destruct (get_p s tid) as [x|] eqn:Hx; [|apply ssim_refl].
    eapply ssim_putp; [exact Hx| |unfold put_p; frw; reflexivity ..]. psim_tac.
  - destruct (get_p s tid) as [x|] eqn:Hx; [|apply ssim_refl].
    eapply ssim_putp; [exact Hx| |unfold put_p; frw; reflexivity ..]. psim_tac.
Qed.
