(** C13 at trace level — frame pass.  For a fixed finished task [t] and a fixed driver [d]:
    across any model function that is not "driver d's own step",
    - the task stays [PDone],
    - no old id is (re-)filed in a registry (only ids >= num_started are ever added),
    - the kind / pc / snapshot / outcome of driver [d] do not change. *)
From TP Require Import PInv PInv_R_base PInv_R_tr.

Record tpar := {
  tp_t : nat; tp_d : nat; tp_n0 : nat; tp_R0 : list nat;
  tp_k : dkind; tp_pc : dpc; tp_sn : list nat; tp_fi : option outcome }.

Definition dsame (P : tpar) (y : dtask) : Prop :=
  d_kind y = tp_k P /\ d_pc y = tp_pc P /\ d_snap y = tp_sn P /\ d_final y = tp_fi P.

Definition old (P : tpar) (u : nat) : Prop := In u (tp_R0 P) \/ tp_n0 P <= u.

Definition T (P : tpar) (s : state) : Prop :=
  tp_n0 P <= num_started s /\
  (forall u, In u (regs s) -> old P u) /\
  (exists x, get_p s (tp_t P) = Some x /\ p_pc x = PDone) /\
  (exists y, get_d s (tp_d P) = Some y /\ dsame P y).

Lemma In_dict_add l a u : In u (dict_add l a) <-> In u l \/ u = a.
Proof.
  unfold dict_add. destruct (mem a l) eqn:Hm.
  - apply mem_In in Hm. split; auto. intros [?| ->]; auto.
  - rewrite in_app_iff. simpl. intuition.
Qed.

Lemma In_regs s u :
  In u (regs s) <-> In u (t_running s) \/ In u (t_cancelled s) \/ In u (t_ended s).
Proof. unfold regs. rewrite !in_app_iff. tauto. Qed.

(** ** basic transformers *)
Lemma T_eq P s s' :
  num_started s' = num_started s -> t_running s' = t_running s ->
  t_cancelled s' = t_cancelled s -> t_ended s' = t_ended s ->
  ptasks s' = ptasks s -> dtasks s' = dtasks s -> T P s -> T P s'.
Proof.
  unfold T, regs, get_p, get_d. intros -> -> -> -> -> ->. auto.
Qed.

Lemma T_sched P s h : T P s -> T P (sched s h).
Proof.
  apply T_eq; unfold sched; destruct (is_ready s h); reflexivity.
Qed.

Lemma T_fold {A} (f : state -> A -> state) P :
  (forall s x, T P s -> T P (f s x)) -> forall l s, T P s -> T P (fold_left f l s).
Proof. intros Hf. induction l as [|x l IH]; simpl; intros s H; auto. Qed.

Lemma T_sched_cbs P s r : T P s -> T P (sched_cbs s r).
Proof. intros H. unfold sched_cbs. apply T_fold; auto. intros; apply T_sched; auto. Qed.

Lemma T_put_m P s m x : T P s -> T P (put_m s m x).
Proof. exact (fun H => H). Qed.
Lemma T_set_ctl P s c : T P s -> T P (set_ctl s c).
Proof. exact (fun H => H). Qed.
Lemma T_emit P s e : T P s -> T P (emit s e).
Proof. exact (fun H => H). Qed.
Lemma T_set_res P s r : T P s -> T P (set_res s r).
Proof. exact (fun H => H). Qed.
Lemma T_set_groups P s r : T P s -> T P (set_groups s r).
Proof. exact (fun H => H). Qed.
Lemma T_set_start_calls P s r : T P s -> T P (set_start_calls s r).
Proof. exact (fun H => H). Qed.

Lemma T_put_p P s t x :
  T P s -> (t <> tp_t P \/ p_pc x = PDone) -> T P (put_p s t x).
Proof.
  intros (H1 & H2 & (x0 & Hx0 & Hpc) & H4) Hx. split; [exact H1|]. split; [exact H2|].
  split; [|exact H4].
  destruct (Nat.eq_dec t (tp_t P)) as [->|Hne].
  - destruct Hx as [Hx|Hx]; [congruence|]. exists x. split; auto.
    apply get_p_put_p_eq. eapply get_p_lt; eauto.
  - exists x0. split; auto. rewrite get_p_put_p_neq; auto.
Qed.

Lemma T_put_p_same P s t x x' :
  T P s -> get_p s t = Some x -> p_pc x' = p_pc x -> T P (put_p s t x').
Proof.
  intros H Hx Hpc. apply T_put_p; auto.
  destruct (Nat.eq_dec t (tp_t P)) as [->|Hne]; auto. right.
  destruct H as (_ & _ & (x0 & Hx0 & Hpc0) & _). congruence.
Qed.

Lemma T_put_d P s d x :
  T P s -> (d <> tp_d P \/ dsame P x) -> T P (put_d s d x).
Proof.
  intros (H1 & H2 & H3 & (y0 & Hy0 & Hs)) Hx. split; [exact H1|]. split; [exact H2|].
  split; [exact H3|].
  destruct (Nat.eq_dec d (tp_d P)) as [->|Hne].
  - destruct Hx as [Hx|Hx]; [congruence|]. exists x. split; auto.
    apply get_d_put_d_eq. eapply get_d_lt; eauto.
  - exists y0. split; auto. rewrite get_d_put_d_neq; auto.
Qed.

Lemma T_put_d_same P s d y x :
  T P s -> get_d s d = Some y ->
  d_kind x = d_kind y -> d_pc x = d_pc y -> d_snap x = d_snap y -> d_final x = d_final y ->
  T P (put_d s d x).
Proof.
  intros H Hy E1 E2 E3 E4. apply T_put_d; auto.
  destruct (Nat.eq_dec d (tp_d P)) as [->|Hne]; auto. right.
  destruct H as (_ & _ & _ & (y0 & Hy0 & (A1 & A2 & A3 & A4))).
  assert (y0 = y) by congruence. subst y0. unfold dsame. repeat split; congruence.
Qed.

(** registries change, nothing else of interest *)
Lemma T_regs P s s' :
  num_started s' = num_started s -> ptasks s' = ptasks s -> dtasks s' = dtasks s ->
  (forall u, In u (regs s') -> In u (regs s) \/ old P u) ->
  T P s -> T P s'.
Proof.
  intros En Ep Ed Hr (H1 & H2 & H3 & H4). unfold T, get_p, get_d. rewrite En, Ep, Ed.
  split; [exact H1|]. split; [|split; [exact H3|exact H4]].
  intros u Hu. destruct (Hr u Hu) as [Hin|Ho]; auto.
Qed.

Lemma T_old P s u : T P s -> In u (regs s) -> old P u.
Proof. intros (_ & H2 & _) Hu. apply H2; auto. Qed.

(** ** semaphore *)
Lemma T_wake_next P s : T P s -> T P (wake_next s).
Proof.
  intros H. unfold wake_next. destruct (first_pending s (sem_waiters s)); auto.
  destruct (get_m s n); auto. apply T_sched. exact H.
Qed.

Lemma T_sem_release P s : T P s -> T P (sem_release s).
Proof. intros H. unfold sem_release. apply T_wake_next. exact H. Qed.

Lemma T_map_release P s m : T P s -> T P (map_release s m).
Proof.
  intros H. unfold map_release. destruct (get_m s m) as [x|]; auto.
  destruct (m_pc x); try exact H. destruct (m_fw x) as [[| | |]|]; try exact H.
  apply T_sched. exact H.
Qed.

(** ** pool tasks (a task other than [t]) *)
Lemma T_finish_p P s t x : T P s -> T P (finish_p s t x).
Proof.
  intros H. unfold finish_p. apply T_set_ctl, T_sched_cbs, T_put_p; auto.
Qed.

Lemma T_suspend_p P s t x pc : T P s -> t <> tp_t P -> T P (suspend_p s t x pc).
Proof.
  intros H Hne. unfold suspend_p. destruct (p_mc x).
  - apply T_set_ctl, T_sched, T_put_p; auto.
  - apply T_set_ctl, T_put_p; auto.
Qed.

Lemma T_user_p P s t x ev c :
  T P s -> t <> tp_t P -> T P (set_ctl (emit (put_p s t x) ev) c).
Proof. intros H Hne. apply T_set_ctl, T_emit, T_put_p; auto. Qed.

Lemma T_moved P s1 t x :
  T P s1 -> old P t -> t <> tp_t P ->
  T P (let s2 := set_t_ended s1 (dict_add (t_ended s1) t) in
     let s3 := sem_release s2 in
     let x := set_p_nrel x (S (p_nrel x)) in
     let s4 := if p_ismap x then map_release s3 (p_req x) else s3 in
     match p_ecb x with
     | CbNone => finish_p s4 t x
     | _ =>
        set_ctl (emit (put_p s4 t (set_p_pc (set_p_necb x (S (p_necb x))) PUEndCb))
                      (EvCbBegin KEnd t (classify s4 t)))
                (CUser (TP t))
     end).
Proof.
  intros H Ho Hne. cbv zeta.
  assert (H2 : T P (set_t_ended s1 (dict_add (t_ended s1) t))).
  { eapply T_regs with (s := s1); [reflexivity|reflexivity|reflexivity| |exact H].
    intros u Hu. rewrite In_regs in *. cbn in Hu. rewrite In_dict_add in Hu.
    destruct Hu as [Hu|[Hu|[Hu| ->]]]; auto. }
  set (s3 := sem_release (set_t_ended s1 (dict_add (t_ended s1) t))).
  assert (H3 : T P s3) by (apply T_sem_release; exact H2).
  set (x1 := set_p_nrel x (S (p_nrel x))).
  set (s4 := if p_ismap x1 then map_release s3 (p_req x1) else s3).
  assert (H4 : T P s4).
  { unfold s4. destruct (p_ismap x1); auto. apply T_map_release; auto. }
  clearbody s4. clear H3 H2. clearbody s3.
  destruct (p_ecb x1).
  - apply T_finish_p; auto.
  - apply T_user_p; auto.
  - apply T_user_p; auto.
Qed.

Lemma T_remove_running P s t :
  T P s -> T P (set_t_running s (remove1 t (t_running s))).
Proof.
  intros H. eapply T_regs with (s := s); [reflexivity|reflexivity|reflexivity| |exact H].
  intros u Hu. left. rewrite In_regs in *. cbn in Hu.
  destruct Hu as [Hu|Hu]; auto. left. eapply In_remove1; eauto.
Qed.

Lemma T_remove_cancelled P s t :
  T P s -> T P (set_t_cancelled s (remove1 t (t_cancelled s))).
Proof.
  intros H. eapply T_regs with (s := s); [reflexivity|reflexivity|reflexivity| |exact H].
  intros u Hu. left. rewrite In_regs in *. cbn in Hu.
  destruct Hu as [Hu|[Hu|Hu]]; auto. right; left. eapply In_remove1; eauto.
Qed.

Lemma T_enter_end P s t x : T P s -> t <> tp_t P -> T P (enter_end s t x).
Proof.
  intros H Hne. unfold enter_end.
  destruct (mem t (t_running s)) eqn:Hr; [|destruct (mem t (t_cancelled s)) eqn:Hc].
  - apply T_moved; auto.
    + apply T_remove_running; auto.
    + apply (T_old P s t H). apply In_regs. left. apply mem_In; auto.
  - apply T_moved; auto.
    + apply T_remove_cancelled; auto.
    + apply (T_old P s t H). apply In_regs. right; left. apply mem_In; auto.
  - apply T_finish_p; auto.
Qed.

Lemma T_enter_cancel P s t x : T P s -> t <> tp_t P -> T P (enter_cancel s t x).
Proof.
  intros H Hne. unfold enter_cancel.
  destruct (mem t (t_running s)) eqn:Hr.
  - assert (H1 : T P (set_t_cancelled (set_t_running s (remove1 t (t_running s)))
                                       (dict_add (t_cancelled s) t))).
    { eapply T_regs with (s := s); [reflexivity|reflexivity|reflexivity| |exact H].
      intros u Hu. left. rewrite In_regs in *. cbn in Hu. rewrite In_dict_add in Hu.
      destruct Hu as [Hu|[[Hu| ->]|Hu]]; auto.
      - left. eapply In_remove1; eauto.
      - left. apply mem_In; auto. }
    destruct (p_ccb x).
    + apply T_enter_end; auto.
    + apply T_user_p; auto.
    + apply T_user_p; auto.
  - apply T_enter_end; auto.
Qed.

Lemma T_get_p_done P s x : T P s -> get_p s (tp_t P) = Some x -> p_pc x = PDone.
Proof. intros (_ & _ & (x0 & Hx0 & Hpc) & _) Hx. congruence. Qed.

Lemma T_continue_p P s t : T P s -> T P (continue_p s t).
Proof.
  intros H. unfold continue_p.
  destruct (get_p s t) as [x|] eqn:Hx; auto.
  destruct (Nat.eq_dec t (tp_t P)) as [->|Hne].
  { rewrite (T_get_p_done P s x H Hx). exact H. }
  destruct (p_pc x); auto.
  - destruct (w_first (p_w x)).
    + apply T_suspend_p; auto.
    + apply T_enter_end; auto.
    + apply T_enter_end; auto.
  - destruct (p_fin x); apply T_enter_end; auto.
  - destruct (w_cancel (p_w x)); [apply T_enter_cancel|apply T_enter_end]; auto.
  - destruct (p_ccb x) as [|r|slow r].
    + apply T_enter_end; auto.
    + apply T_enter_end; auto.
    + destruct slow.
      * apply T_suspend_p; auto.
      * apply T_enter_end; auto.
  - destruct (p_ecb x) as [|r|slow r].
    + apply T_finish_p; auto.
    + apply T_finish_p; auto.
    + destruct slow.
      * apply T_suspend_p; auto.
      * apply T_finish_p; auto.
Qed.

Lemma T_run_p P s t : T P s -> T P (run_p s t).
Proof.
  intros H. unfold run_p.
  destruct (get_p s t) as [x0|] eqn:Hx; auto.
  destruct (Nat.eq_dec t (tp_t P)) as [->|Hne].
  { rewrite (T_get_p_done P s x0 H Hx). exact H. }
  set (x := set_p_mc (set_p_fw x0 None) false).
  destruct (p_pc x0); auto.
  - destruct (task_input (p_mc x0) (p_fw x0)).
    + destruct (p_unst x).
      * apply T_user_p; auto.
      * apply T_user_p; auto.
      * apply T_enter_cancel; auto.
    + apply T_finish_p; auto.
    + apply T_finish_p; auto.
  - destruct (task_input (p_mc x0) (p_fw x0)).
    + apply T_set_ctl, T_put_p; auto.
    + apply T_user_p; auto.
    + apply T_user_p; auto.
  - destruct (task_input (p_mc x0) (p_fw x0)); apply T_enter_end; auto.
  - destruct (task_input (p_mc x0) (p_fw x0)); apply T_finish_p; auto.
Qed.

(** ** spawners *)
Lemma T_finish_m P s m x e : T P s -> T P (finish_m s m x e).
Proof. intros H. unfold finish_m. apply T_set_ctl, T_sched_cbs, T_put_m. exact H. Qed.

Lemma T_suspend_m P s m x pc : T P s -> T P (suspend_m s m x pc).
Proof.
  intros H. unfold suspend_m. destruct (m_mc x).
  - apply T_set_ctl, T_sched, T_put_m. exact H.
  - exact H.
Qed.

Lemma T_to_iter P s m : T P s -> T P (to_iter s m).
Proof. intros H. unfold to_iter. destruct (get_m s m); exact H. Qed.

Lemma T_register P s m x :
  T P s -> num_started s = length (ptasks s) -> T P (register s m x).
Proof.
  intros (H1 & H2 & (x0 & Hx0 & Hpc) & H4) Hn. unfold register. apply T_put_m, T_sched.
  split; [|split; [|split]].
  - cbn. lia.
  - intros u Hu. rewrite In_regs in Hu. cbn in Hu. rewrite In_dict_add in Hu.
    destruct Hu as [[Hu| ->]|Hu].
    + apply H2. apply In_regs. auto.
    + right. exact H1.
    + apply H2. apply In_regs. auto.
  - exists x0. split; auto. unfold get_p in *. cbn. rewrite nth_error_app1; auto.
    apply nth_error_Some. congruence.
  - exact H4.
Qed.

Lemma len_register s m x :
  num_started s = length (ptasks s) ->
  num_started (register s m x) = length (ptasks (register s m x)).
Proof.
  intros Hn. unfold register, put_m. cbn [num_started ptasks set_mtasks].
  rewrite num_started_sched, ptasks_sched. cbn. rewrite app_length. simpl. lia.
Qed.

Lemma T_apply_loop P rem : forall s m,
  T P s -> num_started s = length (ptasks s) -> T P (apply_loop rem s m).
Proof.
  induction rem as [|r IH]; intros s m H Hn; simpl.
  - destruct (get_m s m); auto. apply T_finish_m; auto.
  - destruct (get_m s m) as [x|]; auto.
    destruct (nth (m_idx x) (m_bad x) false).
    + apply IH; [exact H|exact Hn].
    + unfold try_start. destruct (closed s).
      * apply T_finish_m; auto.
      * destruct (sem_locked s).
        -- apply T_suspend_m. exact H.
        -- apply IH.
           ++ apply T_register; [exact H|exact Hn].
           ++ apply len_register. exact Hn.
Qed.

Lemma T_spawn_next P s m :
  T P s -> num_started s = length (ptasks s) -> T P (spawn_next s m).
Proof.
  intros H Hn. unfold spawn_next. destruct (get_m s m) as [x|]; auto.
  destruct (m_kind x); [apply T_apply_loop|apply T_to_iter|apply T_apply_loop]; auto.
Qed.

Lemma T_start_then_next P s m x :
  T P s -> num_started s = length (ptasks s) -> T P (start_then_next s m x).
Proof.
  intros H Hn. unfold start_then_next, try_start.
  destruct (closed s).
  - apply T_finish_m; auto.
  - destruct (sem_locked s).
    + apply T_suspend_m. exact H.
    + apply T_spawn_next.
      * apply T_register; [exact H|exact Hn].
      * apply len_register. exact Hn.
Qed.

Lemma T_continue_m P s m :
  T P s -> num_started s = length (ptasks s) -> T P (continue_m s m).
Proof.
  intros H Hn. unfold continue_m. destruct (get_m s m) as [x|]; auto.
  destruct (m_pc x); auto.
  destruct (nth_error (m_els x) (m_idx x)) as [e|].
  - destruct (e_bad e).
    + apply T_to_iter. exact H.
    + destruct (m_mapval x).
      * apply T_suspend_m; auto.
      * apply T_start_then_next; auto.
  - apply T_finish_m; auto.
Qed.

Lemma T_run_m P s m :
  T P s -> num_started s = length (ptasks s) -> T P (run_m s m).
Proof.
  intros H Hn. unfold run_m. destruct (get_m s m) as [x0|]; auto.
  destruct (m_pc x0); auto.
  - destruct (task_input (m_mc x0) (m_fw x0)).
    + apply T_spawn_next; [exact H|exact Hn].
    + apply T_finish_m; auto.
    + apply T_finish_m; auto.
  - destruct (task_input (m_mc x0) (m_fw x0)).
    + apply T_start_then_next; auto.
    + apply T_finish_m; auto.
    + apply T_finish_m; auto.
  - set (x := set_m_mc (set_m_fw x0 None) false).
    set (s1 := put_m (set_sem_waiters s (remove1 m (sem_waiters s))) m x).
    assert (H1 : T P s1) by exact H.
    assert (Hn1 : num_started s1 = length (ptasks s1)) by exact Hn.
    clearbody s1.
    destruct (task_input (m_mc x0) (m_fw x0)).
    + set (s2 := if ninf_pos (sem_value s1) then wake_next s1 else s1).
      assert (H2 : T P s2)
        by (unfold s2; destruct (ninf_pos (sem_value s1)); auto; apply T_wake_next; auto).
      assert (Hn2 : num_started s2 = length (ptasks s2)).
      { unfold s2. destruct (ninf_pos (sem_value s1)); auto.
        unfold wake_next. destruct (first_pending s1 (sem_waiters s1)); auto.
        destruct (get_m s1 n); auto.
        rewrite num_started_sched, ptasks_sched. exact Hn1. }
      clearbody s2.
      apply T_spawn_next.
      * apply T_register; auto.
      * apply len_register; auto.
    + apply T_finish_m.
      destruct (match m_fw x0 with Some FCancelled => true | _ => false end); auto.
      apply T_sem_release; auto.
    + apply T_finish_m.
      destruct (match m_fw x0 with Some FCancelled => true | _ => false end); auto.
      apply T_sem_release; auto.
Qed.

(** ** drivers other than [d] *)
Lemma T_finish_d P s d x e : T P s -> d <> tp_d P -> T P (finish_d s d x e).
Proof. intros H Hne. unfold finish_d. apply T_set_ctl, T_emit, T_put_d; auto. Qed.

Lemma T_wake_closed P l : forall s, T P s -> T P (wake_closed s l).
Proof.
  induction l as [|d l IH]; simpl; intros s H; auto.
  apply IH. destruct (get_d s d) as [x|] eqn:Hx; auto.
  destruct (fut_pending (d_fw x)); auto. apply T_sched.
  eapply T_put_d_same; eauto.
Qed.

Lemma In_filter_sub {A} (f : A -> bool) l u : In u (filter f l) -> In u l.
Proof. intros H. apply filter_In in H. tauto. Qed.

Lemma T_after_g2 P s d x outer : T P s -> d <> tp_d P -> T P (after_g2 s d x outer).
Proof.
  intros H Hne. unfold after_g2.
  destruct outer; try (apply T_finish_d; auto; fail);
    (destruct (d_kind x); [| |apply T_finish_d; auto]).
  - apply T_finish_d; auto.
    eapply T_regs with (s := s); [reflexivity|reflexivity|reflexivity| |exact H].
    intros u Hu. left. rewrite In_regs in *. cbn in Hu.
    destruct Hu as [Hu|[Hu|Hu]]; auto; apply In_filter_sub in Hu; auto.
  - apply T_finish_d; auto. apply T_wake_closed.
    eapply T_regs with (s := s); [reflexivity|reflexivity|reflexivity| |exact H].
    intros u Hu. rewrite In_regs in Hu. cbn in Hu. tauto.
  - apply T_finish_d; auto.
    eapply T_regs with (s := s); [reflexivity|reflexivity|reflexivity| |exact H].
    intros u Hu. left. rewrite In_regs in *. cbn in Hu.
    destruct Hu as [Hu|[Hu|Hu]]; auto; apply In_filter_sub in Hu; auto.
  - apply T_finish_d; auto. apply T_wake_closed.
    eapply T_regs with (s := s); [reflexivity|reflexivity|reflexivity| |exact H].
    intros u Hu. rewrite In_regs in Hu. cbn in Hu. tauto.
Qed.

Lemma T_start_g2 P s d x cs re : T P s -> d <> tp_d P -> T P (start_g2 s d x cs re).
Proof.
  intros H Hne. unfold start_g2. destruct (make_gather s (map TP cs) re) as [g outer].
  destruct outer; try (apply T_after_g2; auto).
  apply T_set_ctl, T_put_d; auto.
Qed.

Lemma T_after_g1 P s d x outer : T P s -> d <> tp_d P -> T P (after_g1 s d x outer).
Proof.
  intros H Hne. unfold after_g1. destruct (d_kind x) as [re|re|].
  - destruct outer as [| |[]|]; try (apply T_finish_d; auto; fail);
      apply T_start_g2; auto.
  - destruct (if re then None else first_exception s
        (match d_g1 x with Some g => g_children g | None => [] end)).
    + apply T_finish_d; auto.
    + apply T_start_g2; auto.
  - apply T_finish_d; auto.
Qed.

Lemma T_start_g1 P s d x cs re : T P s -> d <> tp_d P -> T P (start_g1 s d x cs re).
Proof.
  intros H Hne. unfold start_g1. destruct (make_gather s (map TM cs) re) as [g outer].
  destruct outer; try (apply T_after_g1; auto).
  apply T_set_ctl, T_put_d; auto.
Qed.

Lemma T_run_d P s d : T P s -> d <> tp_d P -> T P (run_d s d).
Proof.
  intros H Hne. unfold run_d. destruct (get_d s d) as [x0|]; auto.
  destruct (d_pc x0); auto.
  - cbn [d_kind set_d_fw]. destruct (d_kind x0) as [re|re|].
    + destruct (pop_ended s (gmeta s)) as [gm ended]. apply T_start_g1; auto.
    + apply T_start_g1; auto.
    + destruct (closed s).
      * apply T_finish_d; auto.
      * apply T_set_ctl, T_put_d; auto.
  - apply T_after_g1; auto.
  - apply T_after_g2; auto.
  - apply T_finish_d; auto.
Qed.

Lemma T_run_g P s d c : T P s -> T P (run_g s d c).
Proof.
  intros H. unfold run_g. destruct (get_d s d) as [x|] eqn:Hx; auto.
  destruct (tref_final s c) as [o|]; auto.
  destruct (match c with TM _ => true | _ => false end);
    (match goal with |- T P (match ?g with Some _ => _ | None => _ end) =>
       destruct g as [g0|]; auto end;
     match goal with |- T P (match ?f with Some _ => _ | None => _ end) =>
       destruct f as [[| | |]|]; try (eapply T_put_d_same; eauto; reflexivity) end;
     match goal with |- T P (let '(_, _) := ?p in _) => destruct p as [nfin outer] end;
     destruct outer; try (eapply T_put_d_same; eauto; reflexivity);
     apply T_sched; eapply T_put_d_same; eauto; reflexivity).
Qed.

(** ** operations *)
Lemma T_know P s g : T P s -> T P (know s g).
Proof. intros H. unfold know. destruct (existsb (gname_eqb g) (known s)); exact H. Qed.

Lemma T_cancel_m P s m : T P s -> T P (cancel_m s m).
Proof.
  intros H. unfold cancel_m. destruct (get_m s m) as [x|]; auto.
  destruct (m_final x); auto.
  destruct (is_current s (TM m)); (destruct (fut_pending (m_fw x)); [apply T_sched|]; exact H).
Qed.

Lemma T_cancel_p P s t : T P s -> T P (cancel_p s t).
Proof.
  intros H. unfold cancel_p. destruct (get_p s t) as [x|] eqn:Hx; auto.
  destruct (p_unst x); try (eapply T_put_p_same; eauto; reflexivity).
  destruct (p_final x); auto.
  set (s1 := if is_current s (TP t) && final_segment x then set_taint_self s true else s).
  assert (H1 : T P s1) by (unfold s1; destruct (is_current s (TP t) && final_segment x); exact H).
  assert (Hx1 : get_p s1 t = Some x)
    by (unfold s1; destruct (is_current s (TP t) && final_segment x); exact Hx).
  clearbody s1.
  destruct (fut_pending (p_fw x)).
  - apply T_sched. eapply T_put_p_same; eauto; reflexivity.
  - eapply T_put_p_same; eauto; reflexivity.
Qed.

Lemma T_do_cancel P s ids : T P s -> T P (do_cancel s ids).
Proof.
  intros H. unfold do_cancel. destruct (first_lookup_err s ids); [exact H|].
  apply T_fold; auto. intros; apply T_cancel_p; auto.
Qed.

Lemma T_cancel_group_metas P s g : T P s -> T P (cancel_group_metas s g).
Proof.
  intros H. unfold cancel_group_metas. destruct (glookup g (gmeta s)) as [ms|]; auto.
  match goal with |- T P (set_meta_cancelled ?s' _) => change (T P s') end.
  apply T_fold; [intros; apply T_cancel_m; auto|]. exact H.
Qed.

Lemma T_cancel_group_body P s g ids : T P s -> T P (cancel_group_body s g ids).
Proof.
  intros H. unfold cancel_group_body. apply T_fold.
  - intros s' t H'. destruct (mem t (t_running s')); auto. apply T_cancel_p; auto.
  - change (T P (cancel_group_metas s g)). apply T_cancel_group_metas; auto.
Qed.

Lemma T_cancel_all_groups P gs : forall s, T P s -> T P (cancel_all_groups s gs).
Proof.
  induction gs as [|[g ids] gs IH]; simpl; intros s H; auto.
  apply IH. apply T_cancel_group_body; auto.
Qed.

Lemma T_new_meta P s x : T P s -> T P (new_meta s x).
Proof. intros H. unfold new_meta. apply T_sched. exact H. Qed.

Lemma T_new_driver P s y : T P s -> T P (set_dtasks s (dtasks s ++ [y])).
Proof.
  intros (H1 & H2 & H3 & (y0 & Hy0 & Hs)). split; [exact H1|]. split; [exact H2|].
  split; [exact H3|]. exists y0. split; auto.
  unfold get_d in *. cbn. rewrite nth_error_app1; auto. apply nth_error_Some. congruence.
Qed.

Lemma T_do_op P s o : T P s -> T P (do_op s o).
Proof.
  intros H. destruct o; unfold do_op; cbv zeta.
  - set (s1 := match g with Some g0 => know s g0 | None => s end).
    assert (H1 : T P s1) by (unfold s1; destruct g; [apply T_know|]; exact H).
    clearbody s1.
    destruct (check_start s1 noncoro); [exact H1|].
    match goal with |- T P (if ?c then _ else _) => destruct c end; [exact H1|].
    apply T_set_res, T_new_meta, T_set_groups, T_know; exact H1.
  - set (s1 := match g with Some g0 => know s g0 | None => s end).
    assert (H1 : T P s1) by (unfold s1; destruct g; [apply T_know|]; exact H).
    clearbody s1.
    destruct (check_start s1 noncoro); [exact H1|].
    destruct (nc =? 0); [exact H1|].
    match goal with |- T P (if ?c then _ else _) => destruct c end; [exact H1|].
    apply T_set_res, T_new_meta, T_set_groups, T_know; exact H1.
  - destruct (check_start s false); [exact H|].
    apply T_set_res, T_new_meta, T_set_groups, T_set_start_calls, T_know; exact H.
  - apply T_do_cancel; auto.
  - pose proof (T_know P s g H) as H1.
    destruct (glookup g (groups (know s g))); [|exact H1].
    apply T_cancel_group_body. exact H1.
  - apply T_cancel_all_groups. exact H.
  - match goal with |- T P (match res ?s' with _ => _ end) =>
      assert (H1 : T P s') by (apply T_do_cancel; exact H); destruct (res s'); exact H1 end.
  - match goal with |- T P (match res ?s' with _ => _ end) =>
      assert (H1 : T P s') by (apply T_do_cancel; exact H); destruct (res s'); exact H1 end.
  - exact H.
  - destruct (0 <? n_gac s); exact H.
  - destruct v; exact H.
  - match goal with |- T P (set_res ?s' _) => change (T P s') end.
    apply T_fold; auto. intros; apply T_know; auto.
  - apply T_sched.
    set (s1 := match k with DGatherClose _ => set_n_gac s (S (n_gac s)) | _ => s end).
    assert (H1 : T P s1) by (unfold s1; destruct k; exact H).
    clearbody s1. apply T_new_driver. exact H1.
  - destruct (get_p s tid) as [x|] eqn:Hx; [|exact H].
    apply T_sched. eapply T_put_p_same; eauto; reflexivity.
  - destruct (get_p s tid) as [x|] eqn:Hx; [|exact H].
    apply T_sched. eapply T_put_p_same; eauto; reflexivity.
Qed.

(** ** one step that is not driver [d]'s own *)
Lemma T_step_other P s l :
  T P s -> num_started s = length (ptasks s) -> l <> LRun (HT (TD (tp_d P))) -> T P (step s l).
Proof.
  intros H0 Hn0 Hl. unfold step.
  set (s1 := set_res (set_evs s []) RNone).
  assert (H : T P s1) by exact H0.
  assert (Hn : num_started s1 = length (ptasks s1)) by exact Hn0.
  clearbody s1. clear H0 Hn0.
  destruct (negb (enabled s1 l)); [exact H|].
  destruct l as [h| |o].
  - assert (H2 : T P (unsched s1 h)) by exact H.
    destruct h as [[t|m|d]|d c]; simpl run_handle.
    + apply T_run_p; auto.
    + apply T_run_m; auto.
    + apply T_run_d; auto. intros ->. apply Hl. reflexivity.
    + apply T_run_g; auto.
  - destruct (ctl s1) as [|[t|m|d]]; auto.
    + apply T_continue_p; auto.
    + apply T_continue_m; auto.
  - apply T_do_op; auto.
Qed.
