(** C07 — Group and global cancellation are complete and contained.  Property theorems only. *)
From TP Require Import PSpecStep PRun PWF PStep_B PStep_B_mr PStep_B_all PExamples.
From TP Require PStep_B_inv.

(** cancel_group(g), as executed by a step of any clean run *)
Theorem C07_group : forall c tr g, clean (run c tr) ->
  step (run c tr) (LOp (OpCancelGroup g)) = do_op (reset (run c tr)) (OpCancelGroup g) /\
  C07_op (reset (run c tr)) g.
Proof.
  intros c tr g Hc. destruct (WFx_run c tr Hc). split; [reflexivity|].
  apply C07_op_step; assumption.
Qed.

(** cancel_all() *)
Theorem C07_all : forall c tr, clean (run c tr) ->
  let s := run c tr in
  step s (LOp OpCancelAll) = do_op (reset s) OpCancelAll /\
  let s' := do_op (reset s) OpCancelAll in
  res s' = RNone /\ groups s' = [] /\
  (forall m y, get_m s' m = Some y -> ghas (m_group y) (groups s) = true -> m_dead y = true) /\
  (forall t x, In t (t_running s) -> In t (concat (map snd (groups s))) ->
               get_p s t = Some x -> p_final x = None ->
               exists x', get_p s' t = Some x' /\ cancel_requested x x') /\
  (forall t, ~ In t (concat (map snd (groups s))) -> get_p s' t = get_p s t) /\
  t_running s' = t_running s /\ t_cancelled s' = t_cancelled s /\ t_ended s' = t_ended s /\
  sem_value s' = sem_value s.
Proof.
  intros c tr Hc. destruct (WFx_run c tr Hc). apply C07_all_step; assumption.
Qed.

(** history: whatever happens afterwards, a request whose group was cancelled creates no further
    task and never advances its argument iterator again *)
Theorem C07_no_late : forall c tr l, clean (run c (tr ++ [l])) ->
  C07_no_late (run c tr) (run c (tr ++ [l])).
Proof.
  intros c tr l H. destruct (WFx_before_step c tr l H) as [X Hc]. rewrite run_snoc.
  apply C07_no_late_holds; [exact (x_wf _ X)|exact (x_diter _ X)|exact Hc].
Qed.

Example C07_example :
  let s := step (run cfg2 tr_full) (LOp (OpCancelGroup (GGen 0 0))) in
  groups s = [] /\ map m_dead (mtasks s) = [true] /\
  map p_fw (ptasks s) = [Some FCancelled; Some FCancelled] /\ taint_iter s = false.
Proof. vm_compute. repeat split; reflexivity. Qed.


(** Monitor soundness: the extracted monitor for C07 (all four clauses) never rejects a stream of the model (P-iter; shown necessary by a counterexample trace). *)
From TP Require PMonSound7_C07 PObs PMon.
Theorem mon_sound : forall c tr, clean (run c tr) -> taint_iter (run c tr) = false -> PMon.ok_C07 c (PObs.observe c tr) = true.
Proof. exact PMonSound7_C07.mon_C07_sound. Qed.

Print Assumptions C07_group.
Print Assumptions C07_all.
Print Assumptions C07_no_late.
Print Assumptions mon_sound.
