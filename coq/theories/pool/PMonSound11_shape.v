(** Monitor soundness for C11 — model side, part 1: the shape of the event list of one step.
    An [EvStart] or [EvCbEnd] event is always the first event of its step, and it is emitted by a
    task whose record (in the state before the step) is at the matching program point: not yet
    started / inside the cancel callback / inside the end callback. *)
From TP Require Import PInv PInv_P_base PInv_P PSpecStep PStep_C_ev PStep_C_run PStep_C
  PMon PMonSound2_def PMonSound_C13_mod.

Definition tail_ok (e : event) : Prop :=
  match e with EvStart _ _ _ | EvCbEnd _ _ _ => False | _ => True end.

Definition kph (kd : cbkind) : phase := match kd with KCancel => PhCan | KEnd => PhEnd end.

Definition hd_ok (s : state) (e : event) : Prop :=
  match e with
  | EvStart t _ _ => exists x, get_p s t = Some x /\ p_pc x = PCreated
  | EvCbEnd kd t _ => exists x, get_p s t = Some x /\ ph_of (p_pc x) = kph kd
  | _ => True
  end.

Definition Sh (s : state) (es : list event) : Prop :=
  match es with
  | [] => True
  | e :: rest => hd_ok s e /\ Forall tail_ok rest
  end.

Lemma tail_hd s e : tail_ok e -> hd_ok s e.
Proof. destruct e; simpl; intros H; auto; contradiction. Qed.

Lemma Sh_all s es : Forall tail_ok es -> Sh s es.
Proof.
  intros H. destruct es as [|e rest]; [exact I|]. inversion H as [|? ? He Hr]; subst.
  split; [apply tail_hd; exact He|exact Hr].
Qed.

Lemma Sh_get s s' es : (forall t, get_p s' t = get_p s t) -> Sh s' es -> Sh s es.
Proof.
  intros Hg. destruct es as [|e rest]; [auto|]. intros [Hh Ht]. split; [|exact Ht].
  destruct e; simpl in *; auto; destruct Hh as (x & Hx & Hp); exists x; rewrite <- Hg; auto.
Qed.

(** ** functions that only append tail events *)
Definition ext (s s' : state) : Prop := exists tl, evs s' = evs s ++ tl /\ Forall tail_ok tl.

Lemma ext_eq s s' : evs s' = evs s -> ext s s'.
Proof. intros E. exists []. rewrite app_nil_r. split; [exact E|constructor]. Qed.

Lemma ext_trans a b c : ext a b -> ext b c -> ext a c.
Proof.
  intros (t1 & E1 & F1) (t2 & E2 & F2). exists (t1 ++ t2). split.
  - rewrite E2, E1, app_assoc. reflexivity.
  - apply Forall_app. auto.
Qed.

Lemma ext_emit_eq s s' e : evs s' = evs s ++ [e] -> tail_ok e -> ext s s'.
Proof. intros E H. exists [e]. split; [exact E|]. constructor; [exact H|constructor]. Qed.

Lemma ext_finish_p s t x : ext s (finish_p s t x).
Proof. apply ext_eq, ev_finish_p. Qed.

Lemma ext_enter_end s t x : ext s (enter_end s t x).
Proof.
  unfold enter_end.
  assert (Hm : forall s1, evs s1 = evs s ->
     ext s (let s2 := set_t_ended s1 (dict_add (t_ended s1) t) in
            let s3 := sem_release s2 in
            let x0 := set_p_nrel x (S (p_nrel x)) in
            let s4 := if p_ismap x0 then map_release s3 (p_req x0) else s3 in
            match p_ecb x0 with
            | CbNone => finish_p s4 t x0
            | _ => set_ctl (emit (put_p s4 t (set_p_pc (set_p_necb x0 (S (p_necb x0))) PUEndCb))
                                 (EvCbBegin KEnd t (classify s4 t))) (CUser (TP t))
            end)).
  { intros s1 E1. cbv zeta.
    set (s2 := set_t_ended s1 (dict_add (t_ended s1) t)).
    destruct (moved_facts s2 (p_ismap (set_p_nrel x (S (p_nrel x))))
                          (p_req (set_p_nrel x (S (p_nrel x))))) as (He & _).
    cbv zeta in He.
    set (s4 := if p_ismap (set_p_nrel x (S (p_nrel x)))
               then map_release (sem_release s2) (p_req (set_p_nrel x (S (p_nrel x))))
               else sem_release s2) in *.
    assert (E4 : evs s4 = evs s) by (rewrite He; exact E1).
    clearbody s4.
    destruct (p_ecb (set_p_nrel x (S (p_nrel x)))).
    - apply ext_eq. rewrite ev_finish_p. exact E4.
    - eapply ext_emit_eq;
        [cbn [evs set_ctl emit set_evs put_p set_ptasks]; rewrite E4; reflexivity|exact I].
    - eapply ext_emit_eq;
        [cbn [evs set_ctl emit set_evs put_p set_ptasks]; rewrite E4; reflexivity|exact I]. }
  destruct (mem t (t_running s)); [|destruct (mem t (t_cancelled s))].
  - apply Hm. reflexivity.
  - apply Hm. reflexivity.
  - apply ext_finish_p.
Qed.

Lemma ext_enter_cancel s t x : ext s (enter_cancel s t x).
Proof.
  unfold enter_cancel. destruct (mem t (t_running s)).
  - cbv zeta. destruct (p_ccb x).
    + eapply ext_trans; [|apply ext_enter_end]. apply ext_eq. reflexivity.
    + eapply ext_emit_eq; [reflexivity|exact I].
    + eapply ext_emit_eq; [reflexivity|exact I].
  - apply ext_enter_end.
Qed.

(** ** a step of a pool task *)
Lemma Sh_ext0 s0 s s' : evs s = [] -> ext s s' -> Sh s0 (evs s').
Proof.
  intros E0 (tl & E & F). rewrite E, E0. cbn [app]. apply Sh_all. exact F.
Qed.

Lemma Sh_ext1 s0 s e s' : ext (emit s e) s' -> evs s = [] -> hd_ok s0 e -> Sh s0 (evs s').
Proof.
  intros (tl & E & F) E0 Hh. rewrite E. cbn [evs emit set_evs]. rewrite E0. cbn [app].
  split; [exact Hh|exact F].
Qed.

Ltac hdok Ex Epc :=
  first [ exact I
        | eexists; split; [exact Ex | first [exact Epc | rewrite Epc; reflexivity]] ].

Ltac shleaf E0 Ex Epc :=
  first
    [ rewrite E0; exact I
    | eapply Sh_ext1; [first [apply ext_enter_end | apply ext_enter_cancel | apply ext_finish_p]
                      | exact E0 | hdok Ex Epc]
    | eapply Sh_ext0; [exact E0
                      | first [apply ext_enter_end | apply ext_enter_cancel | apply ext_finish_p
                              | apply ext_eq; apply ev_suspend_p]]
    | (cbn [evs set_ctl emit set_evs put_p set_ptasks]; rewrite E0; cbn [app];
       first [exact I | split; [hdok Ex Epc | constructor]]) ].

Lemma Sh_run_p s t : evs s = [] -> Sh s (evs (run_p s t)).
Proof.
  intros E0. unfold run_p.
  destruct (get_p s t) as [x0|] eqn:Ex; [|rewrite E0; exact I].
  cbv zeta. destruct (p_pc x0) eqn:Epc; try (rewrite E0; exact I).
  - destruct (task_input _ _); [destruct (p_unst _)|..]; shleaf E0 Ex Epc.
  - destruct (task_input _ _); shleaf E0 Ex Epc.
  - destruct (task_input _ _); shleaf E0 Ex Epc.
  - destruct (task_input _ _); shleaf E0 Ex Epc.
Qed.

Lemma Sh_continue_p s t : evs s = [] -> Sh s (evs (continue_p s t)).
Proof.
  intros E0. unfold continue_p.
  destruct (get_p s t) as [x0|] eqn:Ex; [|rewrite E0; exact I].
  destruct (p_pc x0) eqn:Epc; try (rewrite E0; exact I).
  - destruct (w_first (p_w x0)); shleaf E0 Ex Epc.
  - destruct (p_fin x0); shleaf E0 Ex Epc.
  - destruct (w_cancel (p_w x0)); shleaf E0 Ex Epc.
  - destruct (p_ccb x0) as [|r|sl r]; [| |destruct sl]; shleaf E0 Ex Epc.
  - destruct (p_ecb x0) as [|r|sl r]; [| |destruct sl]; shleaf E0 Ex Epc.
Qed.

(** ** one step *)
Lemma only_pull_tail s s' : evs s = [] -> only_pull s s' -> Forall tail_ok (evs s').
Proof.
  intros E0 H. apply Forall_forall. intros e He. apply H in He. rewrite E0 in He.
  destruct He as [[]|(m & k & ->)]. exact I.
Qed.

Theorem step_shape s l : WF s -> Extra_P s -> Sh s (evs (step s l)).
Proof.
  intros W EP.
  destruct l as [h| |o].
  - destruct h as [[t|m|d]|d c].
    + unfold step. fold (pre s). destruct (negb (enabled (pre s) (LRun (HT (TP t))))); [exact I|].
      cbn [run_handle]. apply (Sh_get s (unsched (pre s) (HT (TP t)))); [reflexivity|].
      apply Sh_run_p. reflexivity.
    + unfold step. fold (pre s). destruct (negb (enabled (pre s) (LRun (HT (TM m))))); [exact I|].
      cbn [run_handle]. apply Sh_all.
      apply (only_pull_tail (unsched (pre s) (HT (TM m)))); [reflexivity|apply op_run_m].
    + apply Sh_all. apply Forall_forall. intros e He.
      destruct (step_driver_events s d e W EP He) as [o ->]. exact I.
    + unfold step. fold (pre s). destruct (negb (enabled (pre s) (LRun (HG d c)))); [exact I|].
      cbn [run_handle]. rewrite ev_run_g. exact I.
  - unfold step. fold (pre s). destruct (negb (enabled (pre s) LGo)); [exact I|].
    destruct (ctl (pre s)) as [|[t|m|d]]; try exact I.
    + apply (Sh_get s (pre s)); [reflexivity|]. apply Sh_continue_p. reflexivity.
    + apply Sh_all. apply (only_pull_tail (pre s)); [reflexivity|apply op_continue_m].
  - unfold step. fold (pre s). destruct (negb (enabled (pre s) (LOp o))); [exact I|].
    rewrite ev_do_op. exact I.
Qed.
