#!/usr/bin/env python3
"""Generates record definitions with one setter per field (boilerplate only; the generated file is
committed and reviewed like hand-written code)."""
import sys

def record(name, ctor, fields):
    out = [f"Record {name} := {ctor} {{"]
    out.append(";\n".join(f"  {f} : {t}" for f, t in fields))
    out.append("}.\n")
    for f, t in fields:
        body = "; ".join(f"{g} := {'v' if g == f else g + ' x'}" for g, _ in fields)
        out.append(f"Definition set_{f} (x : {name}) (v : {t}) : {name} :=\n  {{| {body} |}}.")
    return "\n".join(out) + "\n"

if __name__ == "__main__":
    import json
    spec = json.load(open(sys.argv[1]))
    print(spec["header"])
    for r in spec["records"]:
        print(record(r["name"], r["ctor"], [tuple(f) for f in r["fields"]]))
