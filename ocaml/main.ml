let () =
  match Array.to_list Sys.argv with
  | _ :: "queue" :: mode :: _ -> Qdriver.main mode
  | _ :: "pool" :: args -> Pdriver.main args
  | _ :: "ctrl" :: args -> Cdriver.main args
  | _ :: "srv" :: args -> Sdriver.main args
  | _ -> prerr_endline "usage: driver (queue|pool) (model|monitor <Cxx>) < trace"; exit 2
