(* Executable mirror of the invariant WF of theories/pool/PInv.v, clause by clause.  Used only to
   *test* the invariants on model runs (mode "wf") before / besides proving them; it has no role in
   any theorem. *)
open Common
open PTypes
open PRecords
open PModel

let i = int_of_nat
let rec nodup = function [] -> true | h :: t -> not (L.mem h t) && nodup t
let idx l = L.mapi (fun k x -> (nat_of_int k, x)) l
let regs s = s.t_running @ s.t_cancelled @ s.t_ended
(* failure patterns (independent of PBad.v): does the call of invocation k raise; number of
   non-failing invocation indices below n *)
let bad_at (pat : bool list) (k : int) : bool = match L.nth_opt pat k with Some b -> b | None -> false
let ngood_upto (pat : bool list) (n : int) : int =
  L.length (L.filter (fun k -> not (bad_at pat k)) (L.init (max n 0) (fun k -> k)))

let running_pc = function PCreated | PUStart | PWaitGate | PUResume | PUCancelled -> true | _ -> false
let cancel_pc = function PUCancelCb | PWaitCcb -> true | _ -> false
let endcb_pc = function PUEndCb | PWaitEcb -> true | _ -> false
let p_waiting = function PWaitGate | PWaitCcb | PWaitEcb -> true | _ -> false
let p_user = function PUStart | PUResume | PUCancelled | PUCancelCb | PUEndCb -> true | _ -> false

let tref_done s r = match tref_final s r with Some _ -> true | None -> false
let cb_ran s d c = tref_done s c && not (L.mem (HG (d, c)) s.ready)

let gather_ok s d g =
  nodup g.g_children
  && L.for_all (fun c -> L.mem c g.g_children) g.g_cb
  && L.for_all (fun c -> tref_done s c || L.mem c g.g_cb) g.g_children
  && i g.g_nfin = L.length (L.filter (cb_ran s d) g.g_children)

let meta_registered s m =
  L.mem m s.meta_cancelled || L.exists (fun (_, ms) -> L.mem m ms) s.gmeta
let meta_in_group s m g = match glookup g s.gmeta with Some ms -> L.mem m ms | None -> false

let checks (s : state) : (string * bool) list =
  let ps = idx s.ptasks and ms = idx s.mtasks and ds = idx s.dtasks in
  let mem = L.mem in
  let mfw m = m_fw_of s m in
  [ "I1_nodup", nodup (regs s);
    "I1_lt", L.for_all (fun t -> i t < i s.num_started) (regs s);
    "I1_len", i s.num_started = L.length s.ptasks;
    "I2_run", L.for_all (fun (t, x) -> running_pc x.p_pc = mem t s.t_running) ps;
    "I2_can", L.for_all (fun (t, x) -> cancel_pc x.p_pc = mem t s.t_cancelled) ps;
    "I2_endcb", L.for_all (fun (t, x) -> not (endcb_pc x.p_pc) || mem t s.t_ended) ps;
    "I2_ended", L.for_all (fun (t, x) -> not (mem t s.t_ended) || endcb_pc x.p_pc || x.p_pc = PDone) ps;
    "I2_final", L.for_all (fun (_, x) -> (x.p_final <> None) = (x.p_pc = PDone)) ps;
    "I2_unst", L.for_all (fun (_, x) -> (x.p_unst <> UNone) = (x.p_pc = PCreated)) ps;
    "I2_mc", L.for_all (fun (_, x) -> x.p_pc <> PCreated || not x.p_mc) ps;
    "slots_ok", (match s.sem_value, s.cap with
        | Fin v, Fin c -> i c = i v + i (in_use s)
        | Inf, Inf -> true
        | _ -> false);
    "I4_nodup", nodup s.sem_waiters;
    "I4_in", L.for_all (fun (m, x) -> (x.m_pc = MWaitPool) = mem m s.sem_waiters) ms
             && L.for_all (fun m -> i m < L.length s.mtasks) s.sem_waiters;
    "I4_fut", L.for_all (fun (_, x) -> not (x.m_pc = MWaitPool || x.m_pc = MWaitMap)
                                     || (match x.m_fw with Some FPending | Some FOk | Some FCancelled -> true | _ -> false)) ms;
    "I4_wake", s.taint_size ||
               L.for_all (fun m -> mfw m <> Some FPending || s.sem_value = Fin Datatypes.O
                                   || L.exists (fun m' -> mfw m' = Some FOk) s.sem_waiters) s.sem_waiters;
    "I5_nodup", nodup s.ready;
    "I5_p", L.for_all (fun (t, x) ->
        mem (HT (TP t)) s.ready = (x.p_pc = PCreated || (p_waiting x.p_pc && x.p_fw <> Some FPending))) ps;
    "I5_pfw", L.for_all (fun (_, x) -> p_waiting x.p_pc = (x.p_fw <> None)) ps;
    "I5_puser", L.for_all (fun (t, x) -> p_user x.p_pc = (s.ctl = CUser (TP t))) ps;
    "I5_m", L.for_all (fun (m, x) ->
        mem (HT (TM m)) s.ready = (x.m_pc = MNotStarted ||
                                   ((x.m_pc = MWaitPool || x.m_pc = MWaitMap) && x.m_fw <> Some FPending))) ms;
    "I5_mfw", L.for_all (fun (_, x) -> (x.m_pc = MWaitPool || x.m_pc = MWaitMap) = (x.m_fw <> None)) ms;
    "I5_muser", L.for_all (fun (m, x) -> (x.m_pc = MAtIter) = (s.ctl = CUser (TM m))) ms;
    "I5_mpc", L.for_all (fun (_, x) -> x.m_pc <> MLoopHead) ms;
    "I5_mfinal", L.for_all (fun (_, x) -> (x.m_final <> None) = (x.m_pc = MDone)) ms;
    "I5_d", L.for_all (fun (d, x) ->
        mem (HT (TD d)) s.ready = (x.d_pc = DNotStarted ||
                                   ((x.d_pc = DWaitG1 || x.d_pc = DWaitG2 || x.d_pc = DWaitClosed)
                                    && x.d_fw <> Some FPending))) ds;
    "I5_dfinal", L.for_all (fun (_, x) -> (x.d_final <> None) = (x.d_pc = DDone)) ds;
    "I5_ctl_d", (match s.ctl with CUser (TD _) -> false | _ -> true);
    "I5_ctl_in", (match s.ctl with
        | CUser (TP t) -> i t < L.length s.ptasks
        | CUser (TM m) -> i m < L.length s.mtasks
        | _ -> true);
    "I5_ready_in", L.for_all (function
        | HT (TP t) -> i t < L.length s.ptasks
        | HT (TM m) -> i m < L.length s.mtasks
        | HT (TD d) -> i d < L.length s.dtasks
        | HG (d, _) -> i d < L.length s.dtasks) s.ready;
    "IM_reg", L.for_all (fun (m, x) -> x.m_final <> None || x.m_dead || meta_in_group s m x.m_group) ms;
    "IM_lt", L.for_all (fun m -> i m < L.length s.mtasks)
               (s.meta_cancelled @ L.concat (L.map snd s.gmeta));
    "IM_nodup", nodup (s.meta_cancelled @ L.concat (L.map snd s.gmeta));
    "IG_g1", L.for_all (fun (d, x) ->
        not (x.d_pc = DWaitG1 && x.d_fw = Some FPending) ||
        (match x.d_g1 with Some g -> gather_ok s d g | None -> false)) ds;
    "IG_g2", L.for_all (fun (d, x) ->
        not (x.d_pc = DWaitG2 && x.d_fw = Some FPending) ||
        (match x.d_g2 with Some g -> gather_ok s d g && g.g_children = L.map (fun t -> TP t) x.d_snap
                         | None -> false)) ds;
    "IG_ok1", L.for_all (fun (_, x) ->
        not (x.d_pc = DWaitG1 && x.d_fw = Some FOk) ||
        (match x.d_g1 with Some g -> L.for_all (tref_done s) g.g_children | None -> false)) ds;
    "IG_ok2", L.for_all (fun (_, x) ->
        not (x.d_pc = DWaitG2 && x.d_fw = Some FOk) ||
        (match x.d_g2 with Some g -> L.for_all (tref_done s) g.g_children | None -> false)) ds;
    "IG_hg", L.for_all (function HG (_, c) -> tref_done s c | _ -> true) s.ready;
    "IG_gac1", L.for_all (fun (_, x) ->
        match x.d_kind, x.d_pc, x.d_g1 with
        | DGatherClose _, DWaitG1, Some g ->
            s.locked && L.for_all (fun (m, y) -> y.m_final <> None || y.m_dead || mem (TM m) g.g_children) ms
        | DGatherClose _, DWaitG1, None -> false
        | _ -> true) ds;
    "IG_ngac", L.for_all (fun (_, x) -> match x.d_kind with DGatherClose _ -> i s.n_gac > 0 | _ -> true) ds;
    "IG_gac2", L.for_all (fun (_, x) ->
        match x.d_kind, x.d_pc with
        | DGatherClose _, DWaitG2 ->
            s.locked && L.for_all (fun (_, y) -> y.m_final <> None || y.m_dead) ms
            && L.for_all (fun t -> mem t x.d_snap) (regs s)
        | _ -> true) ds;
    (* ---- candidates beyond PInv.v (tested here first) ---- *)
    "X_dead", s.taint_iter || L.for_all (fun (_, x) -> not x.m_dead || x.m_final <> None ||
        x.m_mc || x.m_fw = Some FCancelled) ms;
    "X_cap", s.taint_size || s.cap = s.cfg.cf_size;
    "X_inf_nowait", s.taint_size || s.sem_value <> Inf || s.sem_waiters = [];
    "X_closed_empty", not s.closed || (regs s = []);
    "X_groups_nodup", nodup (L.map fst s.groups) && nodup (L.map fst s.gmeta);
    "X_groups_disj", nodup (L.concat (L.map snd s.groups));
    "X_groups_lt", L.for_all (fun t -> i t < i s.num_started) (L.concat (L.map snd s.groups));
    "H_counts", L.for_all (fun (_, x) ->
        let n = i x.p_nstart and c = i x.p_nccb and e = i x.p_necb and r = i x.p_nrel in
        let has_e = if x.p_ecb = CbNone then 0 else 1 and has_c = if x.p_ccb = CbNone then 0 else 1 in
        n <= 1 && c <= has_c && e <= has_e && r <= 1 &&
        (match x.p_pc with
         | PCreated -> n = 0 && c = 0 && e = 0 && r = 0
         | PUStart | PWaitGate | PUResume | PUCancelled -> n = 1 && c = 0 && e = 0 && r = 0
         | PUCancelCb | PWaitCcb -> c = 1 && e = 0 && r = 0
         | PUEndCb | PWaitEcb -> e = 1 && r = 1
         | PDone -> e = has_e && r = 1)) ps;
    "H_noexc_internal", L.for_all (fun (_, x) -> x.p_exc <> Some EKeyError && x.p_exc <> Some EPoolIsClosed && x.p_exc <> Some EPoolIsLocked) ps;
    "H_cb_not_cancelled", s.taint_self || L.for_all (fun (_, x) ->
        match x.p_pc with
        | PUCancelCb | PWaitCcb | PUEndCb | PWaitEcb | PUResume | PUCancelled ->
            not x.p_mc && x.p_fw <> Some FCancelled
        | PDone -> x.p_exc <> Some ECancelled && x.p_final <> Some OCancelled
        | _ -> true) ps;
    "H_forgotten", i s.num_started = L.length (regs s) + i s.n_forgotten;
    "H_req", L.for_all (fun (_, x) ->
        match get_m s x.p_req with
        | None -> false
        | Some y -> x.p_ecb = y.m_ecb && x.p_ccb = y.m_ccb && x.p_ismap = is_map y
                    && i x.p_el < i y.m_idx
                    && (match y.m_kind with
                        | MMap _ -> (match L.nth_opt y.m_els (i x.p_el) with
                                     | Some e -> not e.e_bad && x.p_w = e.e_w | None -> false)
                        | _ -> x.p_w = y.m_w && not (bad_at y.m_bad (i x.p_el)) && i x.p_el < i y.m_num)) ps;
    "H_el_distinct", nodup (L.map (fun (_, x) -> (x.p_req, x.p_el)) ps);
    "H_ncreated", L.for_all (fun (m, y) ->
        i y.m_ncreated = L.length (L.filter (fun (_, x) -> x.p_req = m) ps)) ms;
    "H_apply_count", L.for_all (fun (_, y) ->
        match y.m_kind with
        | MMap _ -> i y.m_idx <= L.length y.m_els
                    && i y.m_ncreated + L.length (L.filter (fun e -> e.e_bad) (L.filteri (fun k _ -> k < i y.m_idx) y.m_els)) = i y.m_idx
        | _ -> i y.m_idx <= i y.m_num && i y.m_ncreated = ngood_upto y.m_bad (i y.m_idx)) ms;
    "H_meta_final", L.for_all (fun (_, y) ->
        match y.m_final with
        | None -> true
        | Some OResult -> y.m_dead || s.taint_iter ||
                          (match y.m_kind with MMap _ -> i y.m_idx = L.length y.m_els
                                             | _ -> i y.m_idx = i y.m_num)
        | Some OCancelled -> y.m_dead || s.taint_iter
        | Some (OExc e) -> false) ms;
    "H_mapsem", L.for_all (fun (m, y) ->
        let unreleased = L.length (L.filter (fun (_, x) -> x.p_req = m && x.p_nrel = Datatypes.O) ps) in
        match y.m_kind with
        | MMap _ -> i y.m_mapval + (if y.m_holds then 1 else 0) + unreleased
                    + (if y.m_pc = MWaitMap && y.m_fw = Some FOk then 1 else 0) = i y.m_nc
        | _ -> i y.m_mapval = 0 && not y.m_holds && i y.m_nc = 0) ms;
    "H_holds", L.for_all (fun (_, y) -> not y.m_holds || y.m_pc = MWaitPool) ms;
    "G_member", L.for_all (fun (t, x) ->
        match glookup x.p_group s.groups with
        | Some ids -> (L.mem t ids && (match get_m s x.p_req with Some y -> y.m_group = x.p_group | None -> false))
                      || (match get_m s x.p_req with Some y -> y.m_dead | None -> false)
        | None -> (match get_m s x.p_req with Some y -> y.m_dead | None -> false)) ps;
    "G_ids_group", L.for_all (fun (g, ids) ->
        L.for_all (fun t -> match get_p s t with Some x -> x.p_group = g | None -> false) ids) s.groups;
    "G_live_meta_group", L.for_all (fun (m, y) -> y.m_final <> None || y.m_dead || ghas y.m_group s.groups) ms;
  ]

let run_wf parse_cfg parse_label lines =
  match lines with
  | [] -> print_endline "OK"
  | c :: rest ->
      let s = ref (init (parse_cfg c rest)) in
      let bad = ref None in
      L.iteri (fun k line ->
          if !bad = None then begin
            let (ls, _) = split_line line in
            s := step !s (parse_label ls);
            match (if !s.taint_unlock then [] else L.filter (fun (_, b) -> not b) (checks !s)) with
            | [] -> ()
            | l -> bad := Some (k, S.concat "," (L.map fst l))
          end) rest;
      match !bad with
      | None -> print_endline "OK"
      | Some (k, names) -> Printf.printf "FAIL %d %s\n" k names
