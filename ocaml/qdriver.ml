(* Driver for M4 (queue context manager).
   Trace file lines:  "<label> ; <obs>"
     label: put | spawn <0|1> | join | run C <c> | run J <j> | exit <c> <0|1> | cancel <c>
     obs:   en=<b> qsize=<n> re=<b> rel=<b,b,..|-> ev=<e,e,..|->
            e: enter:c:i | exit:c:i:(n|e|c) | jstart:j | jdone:j | verr:c
   Modes: model   -> print the model's obs line for every label (the obs part is ignored)
          monitor -> run mon_C20 on the (label, obs) stream as given; print OK | FAIL <idx> <clause> *)
open Common
open QModel

let parse_label (s : string) : label =
  match words s with
  | ["put"] -> QPut
  | ["spawn"; b] -> QSpawn (bs b)
  | ["join"] -> QJoin
  | ["run"; "C"; c] -> QRun (HC (ni c))
  | ["run"; "J"; j] -> QRun (HJ (ni j))
  | ["exit"; c; b] -> QExit (ni c, bs b)
  | ["cancel"; c] -> QCancel (ni c)
  | _ -> failwith ("bad label: " ^ s)

let show_how = function HowNormal -> "n" | HowExc -> "e" | HowCancel -> "c"
let parse_how = function "n" -> HowNormal | "e" -> HowExc | "c" -> HowCancel
                         | s -> failwith ("bad how " ^ s)

let show_event = function
  | EvEnter (c, i) -> "enter:" ^ sn c ^ ":" ^ sn i
  | EvExit (c, i, h) -> "exit:" ^ sn c ^ ":" ^ sn i ^ ":" ^ show_how h
  | EvJoinStart j -> "jstart:" ^ sn j
  | EvJoinDone j -> "jdone:" ^ sn j
  | EvValueError c -> "verr:" ^ sn c

let parse_event (s : string) : event =
  match S.split_on_char ':' s with
  | ["enter"; c; i] -> EvEnter (ni c, ni i)
  | ["exit"; c; i; h] -> EvExit (ni c, ni i, parse_how h)
  | ["jstart"; j] -> EvJoinStart (ni j)
  | ["jdone"; j] -> EvJoinDone (ni j)
  | ["verr"; c] -> EvValueError (ni c)
  | _ -> failwith ("bad event " ^ s)

let show_obs (o : obs) : string =
  Printf.sprintf "en=%s qsize=%s re=%s rel=%s ev=%s"
    (sb o.o_enabled) (sn o.o_qsize) (sb o.o_ready_empty)
    (join_list "," (L.map sb o.o_released))
    (join_list "," (L.map show_event o.o_events))

let parse_obs (l : label) (s : string) : obs =
  let kv = parse_kvs s in
  { o_enabled = bs (field kv "en"); o_label = l; o_qsize = ni (field kv "qsize");
    o_ready_empty = bs (field kv "re");
    o_released = L.map bs (split_list ',' (field kv "rel"));
    o_events = L.map parse_event (split_list ',' (field kv "ev")) }

let show_clause = function
  | Mon_C20.C20_item_handed_once -> "C20.item_handed_once"
  | Mon_C20.C20_exit_matches_enter -> "C20.exit_matches_enter"
  | Mon_C20.C20_task_done_once -> "C20.task_done_once"
  | Mon_C20.C20_join_exact -> "C20.join_exact"
  | Mon_C20.C20_qsize -> "C20.qsize"

let run_model lines =
  let s = ref init in
  L.iter (fun line ->
      let (ls, _) = split_line line in
      let (s', o) = observe1 !s (parse_label ls) in
      s := s'; print_endline (show_obs o)) lines

let run_monitor lines =
  let m = ref Mon_C20.m_init in
  let rec go i = function
    | [] -> print_endline "OK"
    | line :: rest ->
        let (ls, os) = split_line line in
        let l = parse_label ls in
        (match Mon_C20.m_step !m (parse_obs l os) with
         | Datatypes.Coq_inl m' -> m := m'; go (i + 1) rest
         | Datatypes.Coq_inr c -> Printf.printf "FAIL %d %s\n" i (show_clause c)) in
  go 0 lines

let main mode =
  let lines = L.filter (fun l -> S.trim l <> "") (read_lines ()) in
  let f = match mode with
    | "model" -> run_model | "monitor" -> run_monitor | _ -> failwith "mode" in
  Common.per_trace f lines
