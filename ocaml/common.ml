(* Shared helpers for the drivers: nat <-> int, tokenising, printing. *)
module L = Stdlib.List
module S = Stdlib.String
module String = Stdlib.String   (* the extracted Coq String module shadows Stdlib's; s.[i] needs this one *)

let rec nat_of_int (n : int) : Datatypes.nat =
  if n <= 0 then Datatypes.O else Datatypes.S (nat_of_int (n - 1))

let rec int_of_nat (n : Datatypes.nat) : int =
  match n with Datatypes.O -> 0 | Datatypes.S k -> 1 + int_of_nat k

let ni s = nat_of_int (int_of_string s)
let sn n = string_of_int (int_of_nat n)
let sb b = if b then "1" else "0"
let bs s = (s = "1")

let words (s : string) : string list =
  L.filter (fun w -> w <> "") (S.split_on_char ' ' (S.trim s))

let split_list (sep : char) (s : string) : string list =
  if s = "-" || s = "" then [] else S.split_on_char sep s

let join_list (sep : string) (l : string list) : string =
  if l = [] then "-" else S.concat sep l

let read_lines () : string list =
  let rec go acc = match input_line stdin with
    | l -> go (l :: acc)
    | exception End_of_file -> L.rev acc in
  go []

(* "k=v" fields *)
let field (kvs : (string * string) list) (k : string) : string =
  try L.assoc k kvs with Not_found -> failwith ("missing field " ^ k)

let parse_kvs (s : string) : (string * string) list =
  L.map (fun w ->
      match S.index_opt w '=' with
      | Some i -> (S.sub w 0 i, S.sub w (i + 1) (S.length w - i - 1))
      | None -> (w, "")) (words s)

(* split "label ; obs" *)
let split_line (line : string) : string * string =
  match S.index_opt line ';' with
  | Some i -> (S.trim (S.sub line 0 i), S.trim (S.sub line (i + 1) (S.length line - i - 1)))
  | None -> (S.trim line, "")

(* A file holds several traces, each introduced by a line starting with '#'.  The header line is
   echoed, then [f] handles the trace's lines. *)
let per_trace (f : string list -> unit) (lines : string list) : unit =
  let flush_chunk hdr chunk =
    (match hdr with Some h -> print_endline h | None -> ());
    if hdr <> None || chunk <> [] then
      (try f (L.rev chunk) with
       | Failure m -> print_endline ("ERROR " ^ m)
       | Not_found -> print_endline "ERROR Not_found"
       | Invalid_argument m -> print_endline ("ERROR " ^ m)) in
  let rec go hdr chunk = function
    | [] -> flush_chunk hdr chunk
    | l :: rest when S.length l > 0 && l.[0] = '#' -> flush_chunk hdr chunk; go (Some l) [] rest
    | l :: rest -> go hdr (l :: chunk) rest in
  go None [] lines
