(* Driver for M2 (control plane).  Strings cross the boundary percent-encoded with a leading '~'
   (so that the empty string and separators are unambiguous).  See lib/prop_ctrl.py. *)
open Common
open CModel

let cl_of_string (s : string) : char list = L.init (S.length s) (S.get s)
let string_of_cl (l : char list) : string = S.init (L.length l) (L.nth l)

let hexval c = match c with
  | '0'..'9' -> Char.code c - 48 | 'a'..'f' -> Char.code c - 87 | 'A'..'F' -> Char.code c - 55
  | _ -> failwith "hex"

let unq (s : string) : string =
  if S.length s = 0 || s.[0] <> '~' then failwith ("unquoted: " ^ s) else
  let b = Buffer.create 16 in
  let n = S.length s in
  let i = ref 1 in
  while !i < n do
    if s.[!i] = '%' then begin
      Buffer.add_char b (Char.chr (16 * hexval s.[!i + 1] + hexval s.[!i + 2])); i := !i + 3
    end else begin Buffer.add_char b s.[!i]; incr i end
  done;
  Buffer.contents b

let q (s : string) : string =
  let b = Buffer.create 16 in
  Buffer.add_char b '~';
  S.iter (fun c -> match c with
      | 'A'..'Z' | 'a'..'z' | '0'..'9' | '_' | '.' | '-' -> Buffer.add_char b c
      | _ -> Buffer.add_string b (Printf.sprintf "%%%02X" (Char.code c))) s;
  Buffer.contents b

let cs s = cl_of_string s
let sc l = string_of_cl l

let parse_kind = function "pos" -> PPos | "var" -> PVarPos | "kw" -> PKwOnly | "varkw" -> PVarKw
                          | k -> failwith ("kind " ^ k)
let parse_ann = function "bool" -> ABool | "int" -> AInt | "float" -> AFloat | "str" -> AStr
                         | "literal" -> ALiteral | "path" -> APath | _ -> AUnknown
let show_ann = function ABool -> "bool" | AInt -> "int" | AFloat -> "float" | AStr -> "str"
                        | ALiteral -> "literal" | APath -> "path" | AUnknown -> "unknown"

let parse_param (w : string) : param =
  match S.split_on_char ':' w with
  | [n; k; d; a] -> { pa_name = cs n; pa_kind = parse_kind k; pa_default = (d = "1");
                      pa_ann = parse_ann a }
  | _ -> failwith ("param " ^ w)

let parse_member (line : string) : member =
  match words line with
  | "F" :: n :: ps -> MFun (cs n, L.map parse_param ps)
  | ["P"; n] -> MProp (cs n, None)
  | ["P"; n; p] -> MProp (cs n, Some (parse_param p))
  | ["O"; n] -> MOther (cs n)
  | _ -> failwith ("member " ^ line)

let show_arg (a : argspec) : string =
  S.concat "|" [ sc a.as_dest; S.concat "," (L.map sc a.as_flags);
                 (match a.as_action with AStore -> "store" | AStoreTrue -> "store_true");
                 (match a.as_nargs with NOne -> "one" | NStar -> "*" | NOpt -> "?");
                 show_ann a.as_conv ]

let run_table (lines : string list) : unit =
  let ms = L.map parse_member lines in
  L.iter (fun c ->
      Printf.printf "cmd %s %s %s %s\n" (sc c.c_name) (sc c.c_member) (sb c.c_isprop)
        (join_list " " (L.map show_arg c.c_args))) (build_commands ms);
  Printf.printf "ok %s wf %s\n" (sb (handshake_ok ms)) (sb (wf_surface ms))

let split_at_sep (lines : string list) : string list * string list =
  let rec go acc = function
    | [] -> (L.rev acc, [])
    | "--" :: rest -> (L.rev acc, rest)
    | l :: rest -> go (l :: acc) rest in
  go [] lines

let show_argval = function
  | VConv (a, s) -> "c:" ^ show_ann a ^ ":" ^ q (sc s)
  | VConvList (a, l) -> "l:" ^ show_ann a ^ ":" ^ join_list "," (L.map (fun s -> q (sc s)) l)
  | VBool b -> "b:" ^ sb b
  | VDef -> "d"

let show_pycall (y : pycall) : string =
  Printf.sprintf "py %s %d pos=%s var=%s kw=%s" (sc y.y_member) (int_of_nat y.y_kind)
    (join_list ";" (L.map show_argval y.y_pos)) (join_list ";" (L.map show_argval y.y_var))
    (join_list ";" (L.map (fun (k, v) -> sc k ^ "=" ^ show_argval v) y.y_kw))

let parse_form = function "s" -> FShort | "l" -> FLong | "e" -> FLongEq | f -> failwith ("form " ^ f)

let run_interp (lines : string list) : unit =
  let (surf, calls) = split_at_sep lines in
  let ms = L.map parse_member surf in
  let cmds = build_commands ms in
  L.iter (fun line ->
      match words line with
      | "call" :: cname :: rest ->
          let kv = parse_kvs (S.concat " " rest) in
          let f = field kv in
          let qs s = L.map (fun w -> cs (unq w)) (split_list ',' s) in
          let opts = L.map (fun w -> match S.split_on_char ':' w with
              | [d; fm; v] -> { oa_dest = cs d; oa_form = parse_form fm; oa_val = cs (unq v) }
              | _ -> failwith ("opt " ^ w)) (split_list ';' (f "opts")) in
          let k = { k_pos = qs (f "pos"); k_var = qs (f "var"); k_opts = opts } in
          (match find_command cmds (cs cname) with
           | None -> print_endline "line -"; print_endline "none"
           | Some c ->
               let toks = render c k in
               Printf.printf "line %s\n" (join_list " " (L.map (fun t -> q (sc t)) toks));
               (match interpret ms toks with
                | Some y -> print_endline (show_pycall y)
                | None -> print_endline "none"))
      | "raw" :: toks ->
          let toks = L.map (fun t -> cs (unq t)) toks in
          (match interpret ms toks with
           | Some y -> print_endline (show_pycall y)
           | None -> print_endline "none")
      | _ -> failwith ("interp line " ^ line)) calls

let run_session (lines : string list) : unit =
  let ps = L.map (fun line ->
      match words line with
      | ["ok"; "none"] -> POk CNone
      | ["ok"; "val"; v] -> POk (CValue (cs (unq v)))
      | ["ok"; "exc"; v] -> POk (CExc (cs (unq v)))
      | ["argerr"; m] -> PArgError (cs (unq m))
      | ["perr"; m] -> PParserError (cs (unq m))
      | ["help"; m] -> PHelp (cs (unq m))
      | _ -> failwith ("session line " ^ line)) lines in
  let s = sess_run ps in
  L.iter (fun r -> print_endline ("reply " ^ q (sc r))) s.s_replies;
  Printf.printf "calls %d buf %s\n" (int_of_nat s.s_calls) (q (sc s.s_buf))

let main args =
  let lines = L.filter (fun l -> S.trim l <> "") (read_lines ()) in
  match args with
  | ["table"] -> per_trace run_table lines
  | ["interp"] -> per_trace run_interp lines
  | ["session"] -> per_trace run_session lines
  | _ -> failwith "ctrl: mode"
