(* Driver for M3 (server lifecycle).  Trace: first line "kind tcp|unix", then one label per line:
   start | connect | connectbad | open | hello <c> | send <c> | sendwait <c> | leave <c> | abort <c> | stop | closepool.  Output: one observation line per label. *)
open Common
open SModel

let parse_label (s : string) : label =
  match words s with
  | ["start"] -> LStart
  | ["connect"] -> LConnect
  | ["connectbad"] -> LConnectBad
  | ["open"] -> LOpen
  | ["hello"; c] -> LHello (ni c)
  | ["send"; c] -> LSend (ni c)
  | ["sendwait"; c] -> LSendWait (ni c)
  | ["leave"; c] -> LLeave (ni c)
  | ["abort"; c] -> LAbort (ni c)
  | ["stop"] -> LStop
  | ["closepool"] -> LClosePool
  | _ -> failwith ("label " ^ s)

let show (s : srv) : string =
  Printf.sprintf "listening=%s done=%s drain=%s overlap=%s raised=%s sock=%s refused=%s conns=%s" (sb s.v_listening) (sb s.v_done)
    (string_of_int (L.length s.v_drain)) (sb s.v_overlap) (sb s.v_raised) (sb s.v_sockfile) (sn s.v_refused)
    (join_list "," (L.map (fun k -> sb k.k_client_open ^ ":" ^ sb (k.k_client_open && k.k_session) ^ ":" ^ sn k.k_replies)
                      s.v_conns))

let run lines =
  match lines with
  | [] -> ()
  | k :: rest ->
      let kind = (match words k with ["kind"; "unix"] -> Unix | ["kind"; "tcp"] -> TCP
                                   | _ -> failwith "kind") in
      let s = ref (init kind) in
      L.iter (fun line ->
          let (ls, _) = split_line line in
          s := step !s (parse_label ls); print_endline (show !s)) rest

let main args =
  let lines = L.filter (fun l -> S.trim l <> "") (read_lines ()) in
  match args with
  | ["model"] -> per_trace run lines
  | _ -> failwith "srv: mode"
