(* Driver for M1 (pool).  Trace: first line "cfg size=<n|inf> kind=<task|simple> bad=<pat> w=<ws>
   ecb=<cb> ccb=<cb>", then "<label> ; <obs>" lines.  See harness/poolrun.py for the same format.

   Failure patterns (<pat>, field bad= of "apply" labels and of the cfg line): the model has one
   representation, a [bool list] (invocation i raises iff its i-th entry is true; indices beyond
   the list do not fail).  Syntax: "0" = no call fails ([]); "p0101..." = that explicit pattern;
   "1" = every call fails - translated here to a pattern of trues that covers every invocation
   index the request(s) can reach: [num] trues for apply, and for the cfg line as many as the
   largest num= of the trace's start labels. *)
open Common
open PTypes
open PRecords
open PModel
open PObs

let parse_ninf s = if s = "inf" then Inf else Fin (ni s)
let show_ninf = function Inf -> "inf" | Fin n -> sn n

let parse_w (s : string) : wspec =
  { w_first = (match s.[0] with 's' -> WSuspend | 'r' -> WReturn | 'x' -> WRaise
                                | _ -> failwith "wspec");
    w_cancel = (match s.[1] with 'p' -> WPropagate | 'w' -> WSwallow | _ -> failwith "wspec") }

let parse_cb (s : string) : cbspec =
  match s.[0] with
  | 'n' -> CbNone
  | 's' -> CbSync (s.[1] = '1')
  | 'a' -> CbAsync (s.[1] = '1', s.[2] = '1')
  | _ -> failwith "cbspec"

let parse_gname (s : string) : gname =
  let rest = S.sub s 1 (S.length s - 1) in
  match s.[0] with
  | 'A' -> (match S.split_on_char '.' rest with
            | [m; i] -> GGen (ni m, ni i) | _ -> failwith "gname")
  | 'S' -> GStart (ni rest)
  | 'U' -> GUser (ni rest)
  | _ -> failwith ("gname " ^ s)

let show_gname = function
  | GGen (m, i) -> "A" ^ sn m ^ "." ^ sn i
  | GStart i -> "S" ^ sn i
  | GUser k -> "U" ^ sn k

let parse_ogname s = if s = "-" then None else Some (parse_gname s)

let parse_elem (s : string) : elem =
  { e_bad = (s.[0] = '1'); e_w = parse_w (S.sub s 1 2) }

let rec all_true (n : int) : bool list = if n <= 0 then [] else true :: all_true (n - 1)

(* [n] = how many invocation indices "every call fails" has to cover *)
let parse_pat (n : int) (s : string) : bool list =
  if s = "0" then []
  else if s = "1" then all_true n
  else if S.length s >= 1 && s.[0] = 'p' then
    L.init (S.length s - 1) (fun k -> match s.[k + 1] with
        | '1' -> true | '0' -> false | _ -> failwith ("pattern " ^ s))
  else failwith ("pattern " ^ s)

let show_pat (p : bool list) : string =
  if p = [] then "0" else "p" ^ S.concat "" (L.map (fun b -> if b then "1" else "0") p)

let parse_tref (s : string) : tref =
  let n = ni (S.sub s 1 (S.length s - 1)) in
  match s.[0] with 'P' -> TP n | 'M' -> TM n | 'D' -> TD n | _ -> failwith ("tref " ^ s)

let parse_hid (s : string) : hid =
  if s.[0] = 'G' then
    match S.split_on_char ':' (S.sub s 1 (S.length s - 1)) with
    | [d; c] -> HG (ni d, parse_tref c)
    | _ -> failwith "hid"
  else HT (parse_tref s)

let nat_list s = L.map ni (split_list ',' s)

let parse_label (s : string) : label =
  match words s with
  | ["run"; h] -> LRun (parse_hid h)
  | ["go"] -> LGo
  | opname :: rest ->
      let kv = parse_kvs (S.concat " " rest) in
      let f = field kv in
      let o = match opname with
        | "apply" -> OpApply (ni (f "num"), parse_pat (int_of_string (f "num")) (f "bad"),
                              bs (f "nonco"), parse_w (f "w"),
                              parse_cb (f "ecb"), parse_cb (f "ccb"), parse_ogname (f "g"))
        | "map" -> OpMap (ni (f "stars"), L.map parse_elem (split_list ',' (f "els")),
                          ni (f "nc"), bs (f "nonco"), parse_cb (f "ecb"), parse_cb (f "ccb"),
                          parse_ogname (f "g"))
        | "start" -> OpStart (ni (f "num"))
        | "cancel" -> OpCancel (nat_list (f "ids"))
        | "cancelgroup" -> OpCancelGroup (parse_gname (f "g"))
        | "cancelall" -> OpCancelAll
        | "stop" -> OpStop (if f "n" = "neg" then None else Some (ni (f "n")))
        | "stopall" -> OpStopAll
        | "lock" -> OpLock
        | "unlock" -> OpUnlock
        | "setsize" -> OpSetSize (if f "v" = "neg" then None else Some (parse_ninf (f "v")))
        | "getids" -> OpGetGroupIds (L.map parse_gname (split_list ',' (f "gs")))
        | "driver" -> OpDriver (match f "k" with
            | "flush0" -> DFlush false | "flush1" -> DFlush true
            | "gac0" -> DGatherClose false | "gac1" -> DGatherClose true
            | "until" -> DUntilClosed | k -> failwith ("dkind " ^ k))
        | "finish" -> OpFinish (ni (f "tid"), if f "how" = "x" then FinRaise else FinReturn)
        | "relcb" -> OpReleaseCb (ni (f "tid"))
        | _ -> failwith ("bad op: " ^ s) in
      LOp o
  | [] -> failwith "empty label"

(* the largest num= among the start labels of a trace ("label ; obs" lines) *)
let max_start_num (lines : string list) : int =
  L.fold_left (fun acc line ->
      let (ls, _) = split_line line in
      match words ls with
      | "start" :: rest ->
          (try max acc (int_of_string (field (parse_kvs (S.concat " " rest)) "num"))
           with _ -> acc)
      | _ -> acc) 0 lines

(* [lines] = the rest of the trace (needed only to size the pattern of bad=1) *)
let parse_cfg (s : string) (lines : string list) : config =
  match words s with
  | "cfg" :: rest ->
      let kv = parse_kvs (S.concat " " rest) in
      let f = field kv in
      { cf_size = parse_ninf (f "size");
        cf_kind = (if f "kind" = "simple" then KSimple else KTask);
        cf_bad = parse_pat (max_start_num lines) (f "bad"); cf_w = parse_w (f "w");
        cf_ecb = parse_cb (f "ecb"); cf_ccb = parse_cb (f "ccb") }
  | _ -> failwith ("expected cfg line, got: " ^ s)

(* ---- printing ---- *)
let sorted_ids (l : Datatypes.nat list) : string =
  S.concat "." (L.map string_of_int (L.sort_uniq compare (L.map int_of_nat l)))

let show_err = function
  | ErrNotCoroutineFunction -> "NotCoroutineFunction" | ErrPoolIsClosed -> "PoolIsClosed"
  | ErrPoolIsLocked -> "PoolIsLocked" | ErrValueError -> "ValueError"
  | ErrGroupExists -> "InvalidGroupName.exists" | ErrGroupNotFound -> "InvalidGroupName.notfound"
  | ErrTaskNotFound -> "InvalidTaskID" | ErrAlreadyCancelled -> "AlreadyCancelled"
  | ErrAlreadyEnded -> "AlreadyEnded"

let parse_err = function
  | "NotCoroutineFunction" -> ErrNotCoroutineFunction | "PoolIsClosed" -> ErrPoolIsClosed
  | "PoolIsLocked" -> ErrPoolIsLocked | "ValueError" -> ErrValueError
  | "InvalidGroupName.exists" -> ErrGroupExists | "InvalidGroupName.notfound" -> ErrGroupNotFound
  | "InvalidTaskID" -> ErrTaskNotFound | "AlreadyCancelled" -> ErrAlreadyCancelled
  | "AlreadyEnded" -> ErrAlreadyEnded | s -> failwith ("err " ^ s)

let show_res = function
  | RNone -> "none"
  | RName g -> "name:" ^ show_gname g
  | RIds l -> "ids:" ^ sorted_ids l
  | RErr e -> "err:" ^ show_err e

(* stop()/stop_all() return ordered lists: printed in order; get_group_ids returns a set *)
let show_res_for (l : label) (r : result) : string =
  match l, r with
  | LOp (OpStop _), RIds ids | LOp OpStopAll, RIds ids ->
      "ids:" ^ S.concat "." (L.map sn ids)
  | _ -> show_res r

let dot_list s = if s = "" then [] else L.map ni (S.split_on_char '.' s)

let parse_res (s : string) : result =
  if s = "none" then RNone else
  match S.index_opt s ':' with
  | Some i ->
      let k = S.sub s 0 i and v = S.sub s (i + 1) (S.length s - i - 1) in
      (match k with
       | "name" -> RName (parse_gname v)
       | "ids" -> RIds (dot_list v)
       | "err" -> RErr (parse_err v)
       | _ -> failwith ("res " ^ s))
  | None -> failwith ("res " ^ s)

let show_site = function SWorker -> "w" | SEndCb -> "e" | SCancelCb -> "c"
let parse_site = function "w" -> SWorker | "e" -> SEndCb | "c" -> SCancelCb
                          | s -> failwith ("site " ^ s)

let show_exn = function
  | EUser (t, st) -> "user/" ^ sn t ^ "/" ^ show_site st
  | ECancelled -> "CancelledError" | EKeyError -> "KeyError"
  | EPoolIsClosed -> "PoolIsClosed" | EPoolIsLocked -> "PoolIsLocked"

let parse_exn (s : string) : exn =
  match S.split_on_char '/' s with
  | ["user"; t; st] -> EUser (ni t, parse_site st)
  | ["CancelledError"] -> ECancelled | ["KeyError"] -> EKeyError
  | ["PoolIsClosed"] -> EPoolIsClosed | ["PoolIsLocked"] -> EPoolIsLocked
  | _ ->
      (* any other exception class seen on the implementation (e.g. "Other.UnboundLocalError") is
         not one user code raised: it is fed to the monitor as an internal error *)
      if S.length s >= 6 && S.sub s 0 6 = "Other." then EKeyError else failwith ("exn " ^ s)

let show_outcome = function
  | OResult -> "ok" | OCancelled -> "cancelled" | OExc e -> "exc/" ^ show_exn e

let parse_outcome (s : string) : outcome =
  if s = "ok" then OResult else if s = "cancelled" then OCancelled
  else if S.length s > 4 && S.sub s 0 4 = "exc/" then OExc (parse_exn (S.sub s 4 (S.length s - 4)))
  else failwith ("outcome " ^ s)

let show_cls = function ClRunning -> "r" | ClCancelled -> "c" | ClEnded -> "e" | ClUnknown -> "u"
let parse_cls = function "r" -> ClRunning | "c" -> ClCancelled | "e" -> ClEnded | "u" -> ClUnknown
                         | s -> failwith ("cls " ^ s)
let show_k = function KEnd -> "e" | KCancel -> "c"
let parse_k = function "e" -> KEnd | "c" -> KCancel | s -> failwith ("cbkind " ^ s)

let show_event = function
  | EvStart (t, r, e) -> "start:" ^ sn t ^ ":" ^ sn r ^ ":" ^ sn e
  | EvCancelled t -> "cancelled:" ^ sn t
  | EvExit t -> "exit:" ^ sn t
  | EvCbBegin (k, t, c) -> "cbb:" ^ show_k k ^ ":" ^ sn t ^ ":" ^ show_cls c
  | EvCbEnd (k, t, r) -> "cbe:" ^ show_k k ^ ":" ^ sn t ^ ":" ^ sb r
  | EvCbInterrupted (k, t) -> "cbi:" ^ show_k k ^ ":" ^ sn t
  | EvPull (r, k) -> "pull:" ^ sn r ^ ":" ^ sn k
  | EvDriverDone (d, o) -> "ddone:" ^ sn d ^ ":" ^ show_outcome o

let parse_event (s : string) : event =
  match S.split_on_char ':' s with
  | ["start"; t; r; e] -> EvStart (ni t, ni r, ni e)
  | ["cancelled"; t] -> EvCancelled (ni t)
  | ["exit"; t] -> EvExit (ni t)
  | ["cbb"; k; t; c] -> EvCbBegin (parse_k k, ni t, parse_cls c)
  | ["cbe"; k; t; r] -> EvCbEnd (parse_k k, ni t, bs r)
  | ["cbi"; k; t] -> EvCbInterrupted (parse_k k, ni t)
  | ["pull"; r; k] -> EvPull (ni r, ni k)
  | ["ddone"; d; o] -> EvDriverDone (ni d, parse_outcome o)
  | _ -> failwith ("event " ^ s)

let show_up = function
  | UWStart -> "ws" | UWResume -> "wr" | UWCancelled -> "wc" | UCancelCb -> "cc" | UEndCb -> "ec"
  | UIter -> "it" | UOther -> "xx"
let parse_up = function
  | "ws" -> UWStart | "wr" -> UWResume | "wc" -> UWCancelled | "cc" -> UCancelCb | "ec" -> UEndCb
  | "it" -> UIter | _ -> UOther

let show_ctl = function OIdle -> "idle" | OUser (k, i) -> "user:" ^ show_up k ^ ":" ^ sn i
let parse_ctl (s : string) : ctlobs =
  match S.split_on_char ':' s with
  | ["idle"] -> OIdle
  | ["user"; k; i] -> OUser (parse_up k, ni i)
  | _ -> failwith ("ctl " ^ s)

let show_groups (gs : (gname * Datatypes.nat list option) list) : string =
  join_list "|" (L.map (fun (g, o) ->
      show_gname g ^ "=" ^ (match o with None -> "NF" | Some ids -> sorted_ids ids)) gs)

let parse_groups (s : string) : (gname * Datatypes.nat list option) list =
  L.map (fun w ->
      match S.index_opt w '=' with
      | Some i ->
          let g = S.sub w 0 i and v = S.sub w (i + 1) (S.length w - i - 1) in
          (parse_gname g, if v = "NF" then None else Some (dot_list v))
      | None -> failwith ("groups " ^ w)) (split_list '|' s)

let show_obs (o : obs) : string =
  Printf.sprintf "en=%s ctl=%s nr=%s nc=%s ne=%s full=%s locked=%s size=%s re=%s res=%s groups=%s ev=%s"
    (sb o.o_enabled) (show_ctl o.o_ctl) (sn o.o_nr) (sn o.o_nc) (sn o.o_ne) (sb o.o_full)
    (sb o.o_locked) (show_ninf o.o_size) (sb o.o_ready_empty) (show_res_for o.o_label o.o_res)
    (show_groups o.o_groups) (join_list "," (L.map show_event o.o_events))

let parse_obs (l : label) (s : string) : obs =
  let kv = parse_kvs s in
  let f = field kv in
  { o_label = l; o_enabled = bs (f "en"); o_ctl = parse_ctl (f "ctl");
    o_nr = ni (f "nr"); o_nc = ni (f "nc"); o_ne = ni (f "ne"); o_full = bs (f "full");
    o_locked = bs (f "locked"); o_size = parse_ninf (f "size"); o_ready_empty = bs (f "re");
    o_res = parse_res (f "res"); o_groups = parse_groups (f "groups");
    o_events = L.map parse_event (split_list ',' (f "ev")) }

let run_model lines =
  match lines with
  | [] -> ()
  | c :: rest ->
      let s = ref (init (parse_cfg c rest)) in
      L.iter (fun line ->
          let (ls, _) = split_line line in
          let (s', o) = observe1 !s (parse_label ls) in
          s := s'; print_endline (show_obs o)) rest;
      Printf.printf "@taint self=%s iter=%s size=%s unlock=%s\n" (sb !s.taint_self)
        (sb !s.taint_iter) (sb !s.taint_size) (sb !s.taint_unlock)

let main args =
  let lines = L.filter (fun l -> S.trim l <> "") (read_lines ()) in
  match args with
  | ["model"] -> per_trace run_model lines
  | ["monitor"; pid] -> per_trace (Pmonitors.run_monitor pid parse_cfg parse_label parse_obs) lines
  | ["wf"] -> per_trace (Pwf.run_wf parse_cfg parse_label) lines
  | _ -> failwith "pool: mode"
