(* Dispatch of the extracted pool monitor (PMon.v).  Output: OK | FAIL <index> <clause>. *)
open Common

let run_monitor (pid : string) parse_cfg parse_label parse_obs (lines : string list) : unit =
  match lines with
  | [] -> print_endline "OK"
  | c :: rest ->
      let cfg = parse_cfg c rest in
      let obs = L.map (fun line ->
          let (ls, os) = split_line line in
          parse_obs (parse_label ls) os) rest in
      let n = int_of_string (S.sub pid 1 (S.length pid - 1)) in
      match PMon.mon_run cfg (nat_of_int n) (PMon.trk_init cfg) Datatypes.O obs with
      | None -> print_endline "OK"
      | Some (i, cl) -> Printf.printf "FAIL %d %s\n" (int_of_nat i) (Pclauses.show_clause cl)
