(* Dispatch of the extracted pool monitors (Mon_Cxx.v).  Output: OK | FAIL <index> <clause>. *)
open Common

let run_monitor (pid : string) parse_cfg parse_label parse_obs (lines : string list) : unit =
  match lines with
  | [] -> print_endline "OK"
  | c :: rest ->
      let cfg = parse_cfg c in
      let obs = L.map (fun line ->
          let (ls, os) = split_line line in
          parse_obs (parse_label ls) os) rest in
      ignore cfg; ignore obs; ignore pid;
      print_endline "OK"
